/-
  Helper lemmas for KestrelProps/StreamSrcDec.lean: the Lean code *generated from* `src/crypto/src/decrypt.rs`
  (KestrelModel/GeneratedStream.lean, namespace `Kestrel.StreamSrc.decrypt`, produced by tools/rs2lean_stream.py) equals the
  hand-written I/O-level model `decryptChunksIO` / `passDecryptIO` / `keyDecryptIO` on every source / sink script.

  Route for `decrypt_chunks` (see the header of StreamSrcCommon.lean for what is and what is not shape-dependent):
    decStep        one run of the MODEL's loop body as a `Rs.Flow` over the model's own loop state `DecM`;
    dec_loop_sim   ANY loop body that simulates `decStep` under a view `V` computes `decLoopIO` (fuels above the measure);
    decV6, decV5   the views of the loop variables (source, buffer, auth_data, [done,] sink, counter) as a `DecM`;
    decV6s, decV5s the same for a body that assigns `auth_data` before the buffer;
    dec_body_core  one run of the generated body against `decStep` (the generated body is unfolded, never restated);
    decrypt_chunks_eq  the function itself: the views are tried in turn.
-/
import KestrelProofs.StreamSrcCommon
import KestrelProofs.DecIO
namespace Kestrel
namespace StreamSrc

/-! ### the model's loop as a `Rs.Flow` step -/

/-- the loop state of `decLoopIO` -/
structure DecM where
  s : Src
  k : Snk
  ctr : Nat

/-- one iteration of `decLoopIO` -/
def decStep (A : Aead) (key aad : Bytes) (cs : Nat) (m : DecM) : Rs.Flow DecM (Res × Src × Snk) :=
  match Src.readExact (m.s.fuel 16) m.s 16 with
  | (none, s1) => .ret (.ioRead, s1, m.k)
  | (some hdr, s1) =>
    let lastB := (hdr.drop 8).take 4
    let lenB := hdr.drop 12
    let len := beVal lenB
    if len > cs then .ret (.chunkLen, s1, m.k) else
    match Src.readExact (s1.fuel (len + 16)) s1 (len + 16) with
    | (none, s2) => .ret (.ioRead, s2, m.k)
    | (some body, s2) =>
      match A.dec key m.ctr (aad ++ lastB ++ lenB) body with
      | none => .ret (.auth, s2, m.k)
      | some pt =>
        let last := beVal lastB == 1
        let probe : Option Res × Src :=
          if last then
            match s2.read 1 with
            | (.err, s3) => (some .ioRead, s3)
            | (.interrupted, s3) => (some .ioRead, s3)
            | (.got b, s3) => if b.length ≠ 0 then (some .unexpectedData, s3) else (none, s3)
          else (none, s2)
        match probe with
        | (some e, s3) => .ret (e, s3, m.k)
        | (none, s3) =>
          match Snk.writeAll (s3.pos, s3.nreads) (m.k.wfuel pt) m.k pt with
          | (false, k1) => .ret (.ioWrite, s3, k1)
          | (true, k1) =>
            match k1.flush with
            | (false, k2) => .ret (.ioWrite, s3, k2)
            | (true, k2) => if last then .brk ⟨s3, k2, m.ctr⟩ else .next ⟨s3, k2, m.ctr + 1⟩

/-- outcomes of a generated loop body and of the model step correspond: `V true` relates the states at the loop head,
    `V false` the states at a `break` -/
def DecFlowRel {σ : Type} (V : Bool → σ → DecM → Prop) : Rs.Flow σ (Res × Src × Snk) → Rs.Flow DecM (Res × Src × Snk) → Prop
  | .next a, .next b => V true a b
  | .brk a, .brk b => V false a b
  | .ret r, .ret r' => r = r'
  | _, _ => False

theorem DecFlowRel.ret_right {σ : Type} {V : Bool → σ → DecM → Prop} {x : Rs.Flow σ (Res × Src × Snk)} {r : Res × Src × Snk}
    (h : DecFlowRel V x (.ret r)) : x = .ret r := by
  cases x <;> simp only [DecFlowRel] at h
  rw [h]

/-- **any** loop body that simulates `decStep` under a view `V` computes `decLoopIO` (fuels above the measure) -/
theorem dec_loop_sim {σ : Type} (A : Aead) (key aad : Bytes) (cs : Nat) (body : σ → Rs.Flow σ (Res × Src × Snk))
    (V : Bool → σ → DecM → Prop) (hb : ∀ st m, V true st m → DecFlowRel V (body st) (decStep A key aad cs m)) :
    ∀ (g f : Nat) (st : σ) (m : DecM), V true st m → m.s.inp.length + 1 ≤ g → m.s.inp.length + 1 ≤ f →
      LoopRel (fun st s k => ∃ m', V false st m' ∧ m'.s = s ∧ m'.k = k) (Rs.loop body g st)
        (decLoopIO A key aad cs f m.ctr m.s m.k) := by
  intro g
  induction g with
  | zero => intro f st m _ hg _; omega
  | succ g ih =>
    intro f st m hV hg hf
    obtain ⟨f, rfl⟩ : ∃ f', f = f' + 1 := ⟨f - 1, by omega⟩
    have h := hb st m hV
    rw [Rs.loop_succ]
    simp only [decLoopIO]
    unfold decStep at h
    rcases hr1 : Src.readExact (m.s.fuel 16) m.s 16 with ⟨_ | hdr, s1⟩
    · rw [hr1] at h
      simp only [h.ret_right, LoopRel]
    · rw [hr1] at h
      simp only [] at h ⊢
      obtain ⟨_, hhl, hi1, _⟩ := Src.readExact_some _ _ _ _ _ hr1
      have h16 := Src.readExact_some_len hr1
      by_cases hlen : beVal (List.drop 12 hdr) > cs
      · simp only [hlen, if_true] at h ⊢
        simp only [h.ret_right, LoopRel]
      · simp only [hlen, if_false] at h ⊢
        rcases hr2 : Src.readExact (s1.fuel (beVal (List.drop 12 hdr) + 16)) s1 (beVal (List.drop 12 hdr) + 16) with ⟨_ | body', s2⟩
        · rw [hr2] at h
          simp only [h.ret_right, LoopRel]
        · rw [hr2] at h
          simp only [] at h ⊢
          obtain ⟨_, hbody, hi2, _⟩ := Src.readExact_some _ _ _ _ _ hr2
          rcases hdec : A.dec key m.ctr _ body' with _ | pt
          · rw [hdec] at h
            simp only [h.ret_right, LoopRel]
          · rw [hdec] at h
            simp only [] at h ⊢
            by_cases hlast : (beVal (List.take 4 (List.drop 8 hdr)) == 1) = true
            · simp only [hlast, if_true] at h ⊢
              rcases hp : s2.read 1 with ⟨b | _ | _, s3⟩
              · rw [hp] at h
                simp only [] at h ⊢
                by_cases hb0 : b.length ≠ 0
                · rw [if_pos hb0] at h ⊢
                  simp only [h.ret_right, LoopRel]
                · rw [if_neg hb0] at h ⊢
                  simp only [] at h ⊢
                  rcases hw : Snk.writeAll (s3.pos, s3.nreads) _ m.k pt with ⟨_ | _, k1⟩
                  · rw [hw] at h
                    simp only [h.ret_right, LoopRel]
                  · rw [hw] at h
                    simp only [] at h ⊢
                    rcases hf : k1.flush with ⟨_ | _, k2⟩
                    · rw [hf] at h
                      simp only [h.ret_right, LoopRel]
                    · rw [hf] at h
                      simp only [] at h ⊢
                      generalize body st = x at h
                      cases x <;> simp only [DecFlowRel] at h
                      simp only [LoopRel]
                      exact ⟨s3, k2, ⟨_, h, rfl, rfl⟩, rfl⟩
              · rw [hp] at h
                simp only [h.ret_right, LoopRel]
              · rw [hp] at h
                simp only [h.ret_right, LoopRel]
            · simp only [hlast, Bool.false_eq_true, if_false] at h ⊢
              rcases hw : Snk.writeAll (s2.pos, s2.nreads) _ m.k pt with ⟨_ | _, k1⟩
              · rw [hw] at h
                simp only [h.ret_right, LoopRel]
              · rw [hw] at h
                simp only [] at h ⊢
                rcases hf : k1.flush with ⟨_ | _, k2⟩
                · rw [hf] at h
                  simp only [h.ret_right, LoopRel]
                · rw [hf] at h
                  simp only [] at h ⊢
                  have hm : s2.inp.length + 16 ≤ m.s.inp.length := by
                    rw [hi2, hi1, List.length_drop, List.length_drop]; omega
                  generalize body st = x at h
                  cases x <;> simp only [DecFlowRel] at h
                  rename_i st'
                  exact ih f st' ⟨s2, k2, m.ctr + 1⟩ h (by simp only []; omega) (by simp only []; omega)

/-! ### the views of the loop variables of `decrypt_chunks` -/

/-- The variables the loop body of `decrypt_chunks` assigns, in the translator's order (first assignment inside the loop):
    source, body buffer, `auth_data`, the flag `done`, sink, chunk counter.  At the loop head `done` is false.
    `head` / `strong` as for `encV8`. -/
def decV6 (cs : Nat) (aad : Bytes) (strong : Prop) (head : Bool) : Src × Bytes × Bytes × Bool × Snk × Nat → DecM → Prop
  | (s, buffer, auth, done, k, ctr), m =>
    s = m.s ∧ k = m.k ∧ (head = true → ctr = m.ctr ∧ done = false ∧ buffer.length = cs + 16 ∧ auth.length = aad.length + 8 ∧
      (strong → auth.take aad.length = aad))

/-- the same without a `done` flag among the loop variables (the body decides "last chunk" per iteration) -/
def decV5 (cs : Nat) (aad : Bytes) (strong : Prop) (head : Bool) : Src × Bytes × Bytes × Snk × Nat → DecM → Prop
  | (s, buffer, auth, k, ctr), m =>
    s = m.s ∧ k = m.k ∧ (head = true → ctr = m.ctr ∧ buffer.length = cs + 16 ∧ auth.length = aad.length + 8 ∧
      (strong → auth.take aad.length = aad))

/-- `decV6` / `decV5` for a body that assigns `auth_data` before the body buffer (the translator orders the tuple by first
    assignment inside the loop) -/
def decV6s (cs : Nat) (aad : Bytes) (strong : Prop) (head : Bool) : Src × Bytes × Bytes × Bool × Snk × Nat → DecM → Prop
  | (s, auth, buffer, done, k, ctr), m => decV6 cs aad strong head (s, buffer, auth, done, k, ctr) m

def decV5s (cs : Nat) (aad : Bytes) (strong : Prop) (head : Bool) : Src × Bytes × Bytes × Snk × Nat → DecM → Prop
  | (s, auth, buffer, k, ctr), m => decV5 cs aad strong head (s, buffer, auth, k, ctr) m

theorem dec_read_err (e : RsIO.IoError) : decrypt.read_err e = Res.ioRead := by
  unfold decrypt.read_err; split <;> rfl

set_option hygiene false in
/-- case analysis on `write_all` and `flush` at the end of the decrypt loop body -/
local macro "dec_tail" k:term "," s3:term "," pt:term : tactic => `(tactic|
  (rcases hw : Snk.writeAll (Src.pos $s3, Src.nreads $s3) _ $k $pt with ⟨_ | _, k1⟩
   · simp [RsIO.writeAll, hw, decrypt.write_err, DecFlowRel]
   · rcases hf : Snk.flush k1 with ⟨_ | _, k2⟩ <;>
       simp [RsIO.writeAll, RsIO.flush, hw, hf, decrypt.write_err, DecFlowRel, decV6, decV5, decV6s, decV5s, take_aad, take_aad1, hbody,
         hb, List.length_append, List.length_drop, List.length_take, hhl] <;> omega))

set_option hygiene false in
/-- one run of the generated loop body against `decStep`; expects `s buffer auth k ctr` and `hb ha hs` in the context
    (the view-specific part, which destructures the tuple of loop variables, comes before) -/
local macro "dec_body_core" : tactic => `(tactic|
  (unfold decrypt.decrypt_chunks.loop1 decStep
   rs_unfold
   simp only [RsIO.readExact, List.length_replicate]
   rcases hr1 : Src.readExact (Src.fuel s 16) s 16 with ⟨_ | hdr, s1⟩
   · simp only [Except.mapError, dec_read_err, DecFlowRel]
   · obtain ⟨_, hhl, _⟩ := Src.readExact_some _ _ _ _ _ hr1
     have hl1 : (List.take (12 - 8) (List.drop 8 hdr)).length = 4 := by
       rw [List.length_take, List.length_drop, hhl]; rfl
     have hl2 : (List.drop 12 hdr).length = 4 := by rw [List.length_drop, hhl]
     have hl3 : (List.drop 8 hdr).length = 8 := by rw [List.length_drop, hhl]
     -- (header fields taken apart by `split_at`: `hdr[8..][4..]` is `hdr[12..]`)
     simp only [Except.mapError, dec_read_err, List.drop_drop, Nat.reduceAdd]
     -- `auth_data`: refilled completely, or only its last 8 bytes (the prefix being an invariant); the 8 bytes are written
     -- by two copies of 4 or by one copy of 8
     first
       | simp (disch := first | assumption | (simp only [length_copyFromSlice, List.length_replicate])) only [auth_fill']
       | simp (disch := first | assumption | exact hs trivial | (simp only [length_copyFromSlice, List.length_replicate]))
           only [auth_fill2']
       | simp (disch := first | assumption | (simp only [length_copyFromSlice, List.length_replicate])) only [auth_fill1']
       | simp (disch := first | assumption | exact hs trivial | (simp only [length_copyFromSlice, List.length_replicate]))
           only [auth_fill1s']
     -- a `copy_from_slice` between slices of equal lengths is its source
     try simp (disch := first | omega | (simp only [List.length_replicate, List.length_take, List.length_drop, hhl] <;> omega))
       only [copyFromSlice_eq]
     by_cases hlen : beVal (List.drop 12 hdr) > cs
     · simp only [hlen, decide_true, if_true, Rs.Step.andThen_exit, DecFlowRel]
     · have hbl : (List.take (beVal (List.drop 12 hdr) + 16) buffer).length = beVal (List.drop 12 hdr) + 16 := by
         rw [List.length_take, hb]; omega
       simp only [hlen, decide_false, Bool.false_eq_true, if_false, Rs.Step.andThen_cont, hbl]
       rcases hr2 : Src.readExact (Src.fuel s1 (beVal (List.drop 12 hdr) + 16)) s1 (beVal (List.drop 12 hdr) + 16) with ⟨_ | body, s2⟩
       · simp only [DecFlowRel]
       · obtain ⟨_, hbody, _⟩ := Src.readExact_some _ _ _ _ _ hr2
         simp only [List.take_left' hbody, show (12 - 8) = 4 from rfl]
         -- both sides: the AAD followed by bytes 8..16 of the header
         simp (disch := rfl) only [fields_join]
         rcases hdec : A.dec key ctr _ body with _ | pt
         · simp [Rs.okOr, errors.From_ChaPolyDecryptError_for_DecryptError, DecFlowRel]
         · simp only [Rs.okOr]
           by_cases hlast : (beVal (List.take 4 (List.drop 8 hdr)) == 1) = true
           · simp only [hlast, if_true, RsIO.read, List.length_replicate]
             rcases hp : Src.read s2 1 with ⟨b | _ | _, s3⟩
             · by_cases hb0 : b.length = 0
               · simp [hb0]
                 dec_tail k, s3, pt
               · simp [hb0, DecFlowRel]
             · simp [DecFlowRel]
             · simp [DecFlowRel]
           · simp [hlast]
             dec_tail k, s2, pt))

set_option hygiene false in
/-- `Rs.loop body fuel st0 = x` (hypothesis `hx`; body and initial state as the generated function has them) against
    `decLoopIO`, through a view `$V` of the loop variables; `$hbody` proves the simulation of one iteration, `$hinit`
    the view of the initial state and `$hfin` reads source and sink off the state at the `break` -/
local macro "dec_via" V:term "," hbody:tactic "," hinit:tactic "," hfin:tactic : tactic => `(tactic|
  (refine no_implicit_lambda%
     (have hsim : LoopRel (fun st s k => ∃ m', $V false st m' ∧ m'.s = s ∧ m'.k = k) x
       (decLoopIO A key aad cs (s.inp.length + 1) 0 s k) := ?_; ?_)
   · rw [← hx]
     refine dec_loop_sim A key aad cs _ $V ?_ fuel _ _ ⟨s, k, 0⟩ ?_ ?_ ?_
     · intro st m hV
       $hbody:tactic
     · $hinit:tactic
     · simp only []; omega
     · simp only []; omega
   · rcases x with st' | res | _
     · obtain ⟨s1, k1, ⟨m', hV', rfl, rfl⟩, he⟩ := hsim
       $hfin:tactic
     · simp only [LoopRel] at hsim
       simp only [hsim]
     · exact hsim.elim))

set_option hygiene false in
/-- the views with a `done` flag: `$V` = `decV6` (tuple destructured by `$p` with the buffer first) or `decV6s` -/
local macro "dec_via6" V:ident "," p:rcasesPat "," strong:term : tactic => `(tactic|
  dec_via ($V cs aad $strong),
    (rcases st with $p:rcasesPat
     obtain ⟨ms, mk, mctr⟩ := m
     simp only [decV6s, decV6] at hV
     obtain ⟨rfl, rfl, hV⟩ := hV
     obtain ⟨rfl, rfl, hb, ha, hs⟩ := hV trivial
     dec_body_core),
    (refine ⟨rfl, rfl, fun _ => ⟨rfl, rfl, ?_, ?_, fun hstrong => ?_⟩⟩
     · simp only [List.length_replicate]
     · simp only [List.length_append, List.length_take, List.length_drop, List.length_replicate, length_copyFromSlice] <;> omega
     · first
         | exact hstrong.elim
         | exact auth_init_strong aad),
    (obtain ⟨a1, a2, a3, a4, a5, a6⟩ := st'
     simp only [decV6s, decV6] at hV'
     obtain ⟨rfl, rfl, _⟩ := hV'
     simp only [he]))

set_option hygiene false in
/-- the views without a `done` flag: `decV5` / `decV5s` -/
local macro "dec_via5" V:ident "," p:rcasesPat "," strong:term : tactic => `(tactic|
  dec_via ($V cs aad $strong),
    (rcases st with $p:rcasesPat
     obtain ⟨ms, mk, mctr⟩ := m
     simp only [decV5s, decV5] at hV
     obtain ⟨rfl, rfl, hV⟩ := hV
     obtain ⟨rfl, hb, ha, hs⟩ := hV trivial
     dec_body_core),
    (refine ⟨rfl, rfl, fun _ => ⟨rfl, ?_, ?_, fun hstrong => ?_⟩⟩
     · simp only [List.length_replicate]
     · simp only [List.length_append, List.length_take, List.length_drop, List.length_replicate, length_copyFromSlice] <;> omega
     · first
         | exact hstrong.elim
         | exact auth_init_strong aad),
    (obtain ⟨a1, a2, a3, a4, a5⟩ := st'
     simp only [decV5s, decV5] at hV'
     obtain ⟨rfl, rfl, _⟩ := hV'
     simp only [he]))

/-- the translated `decrypt_chunks` is the hand-written I/O-level model, for every fuel at or above the bound -/
theorem decrypt_chunks_eq (A : Aead) (key aad : Bytes) (cs : Nat) (s : Src) (k : Snk) (fuel : Nat)
    (hf : s.inp.length + 1 ≤ fuel) :
    decrypt.decrypt_chunks A s k key aad cs fuel = some (decryptChunksIO A key aad cs s k) := by
  unfold decrypt.decrypt_chunks decryptChunksIO
  rs_unfold
  try simp only []
  generalize hx : Rs.loop _ fuel _ = x
  first
    | dec_via6 decV6, ⟨s, buffer, auth, done, k, ctr⟩, False
    | dec_via6 decV6, ⟨s, buffer, auth, done, k, ctr⟩, True
    | dec_via5 decV5, ⟨s, buffer, auth, k, ctr⟩, False
    | dec_via5 decV5, ⟨s, buffer, auth, k, ctr⟩, True
    | dec_via6 decV6s, ⟨s, auth, buffer, done, k, ctr⟩, False
    | dec_via6 decV6s, ⟨s, auth, buffer, done, k, ctr⟩, True
    | dec_via5 decV5s, ⟨s, auth, buffer, k, ctr⟩, False
    | dec_via5 decV5s, ⟨s, auth, buffer, k, ctr⟩, True

/-! ### transfer of properties of the hand-written model to the translated code -/

theorem dec_whole_chunks (A : Aead) (key aad : Bytes) (cs : Nat) (s : Src) (k : Snk) (fuel : Nat) (hf : s.inp.length + 1 ≤ fuel)
    (hs : s.noFalseEof) (ws : List Bytes) (pres : Res) (hP : decryptChunks A key aad cs s.inp = (ws, pres)) :
    ∃ res s' k' j q, decrypt.decrypt_chunks A s k key aad cs fuel = some (res, s', k') ∧
      k'.out = k.out ++ (ws.take j).flatten ++ q ∧ j ≤ ws.length ∧
      (q = [] ∨ (res = .ioWrite ∧ ∃ w, ws[j]? = some w ∧ q <+: w)) ∧
      (res = .ok → pres = .ok ∧ j = ws.length ∧ q = []) := by
  obtain ⟨j, q, h⟩ := decLoopIO_prefix A key aad cs (s.inp.length + 1) s.inp.length 0 s k _ _ _ ws pres hs
    (Nat.le_refl _) (Nat.le_refl _) rfl hP
  exact ⟨_, _, _, j, q, decrypt_chunks_eq A key aad cs s k fuel hf, h⟩

theorem dec_release_order (A : Aead) (hA : A.Lawful) (key aad : Bytes) (hk : key.length = 32) (cs : Nat) (s : Src) (k : Snk)
    (fuel : Nat) (hf : s.inp.length + 1 ≤ fuel) (hs : s.noFalseEof) (ws : List Bytes) (pres : Res)
    (hP : decryptChunks A key aad cs s.inp = (ws, pres)) :
    ∃ (res : Res) (s' : Src) (k' : Snk) (segs : List (List WLog)), decrypt.decrypt_chunks A s k key aad cs fuel = some (res, s', k') ∧
      k'.log = segs.flatten.reverse ++ k.log ∧ LogSegs s.pos ws segs ∧
      k'.out.length = k.out.length + (segs.flatten.map (·.n)).sum := by
  obtain ⟨segs, h⟩ := decLoopIO_log A hA key aad hk cs (s.inp.length + 1) s.inp.length 0 s k _ _ _ ws pres hs
    (Nat.le_refl _) (Nat.le_refl _) rfl hP
  exact ⟨_, _, _, segs, decrypt_chunks_eq A key aad cs s k fuel hf, h⟩

theorem dec_ioWrite (A : Aead) (key aad : Bytes) (cs : Nat) (s : Src) (k : Snk) (fuel : Nat) (hf : s.inp.length + 1 ≤ fuel)
    (s' : Src) (k' : Snk) (h : decrypt.decrypt_chunks A s k key aad cs fuel = some (.ioWrite, s', k')) : ¬ k.faultFree := by
  rw [decrypt_chunks_eq A key aad cs s k fuel hf, Option.some.injEq] at h
  exact decLoopIO_ioWrite A key aad cs _ 0 s k s' k' h

/-- `valid_file_format` as translated agrees with the hand-written `validFileFormat` whenever the two magic numbers are
    the ones the model reads from the source (`Generated.decAsymMagic`, `decPassMagic`) -/
theorem valid_file_format_eq (h : Bytes) :
    decrypt.valid_file_format h =
      if h = [101, 103, 107, 16] then .ok FileFormat.AsymV1 else if h = [101, 103, 107, 32] then .ok FileFormat.PassV1
      else .error () := by
  unfold decrypt.valid_file_format
  rs_unfold
  by_cases h1 : h = [101, 103, 107, 16]
  · simp [h1]
  · by_cases h2 : h = [101, 103, 107, 32] <;> simp [h1, h2]

/-! ### file level: `pass_decrypt`, `key_decrypt` (see the remark in StreamSrcEnc.lean) -/

open Generated

theorem valid_file_format_model (h : Bytes) :
    decrypt.valid_file_format h = match validFileFormat h with
      | some true => .ok FileFormat.AsymV1
      | some false => .ok FileFormat.PassV1
      | none => .error () := by
  rw [valid_file_format_eq]
  unfold validFileFormat
  simp only [show decAsymMagic = [101, 103, 107, 16] from rfl, show decPassMagic = [101, 103, 107, 32] from rfl]
  by_cases h1 : h = [101, 103, 107, 16]
  · simp [h1]
  · by_cases h2 : h = [101, 103, 107, 32] <;> simp [h1, h2]

theorem decLoopIO_ne_format (A : Aead) (key aad : Bytes) (cs : Nat) :
    ∀ (fuel ctr : Nat) (s : Src) (k : Snk), (decLoopIO A key aad cs fuel ctr s k).1 ≠ .format := by
  intro fuel
  induction fuel with
  | zero => intro ctr s k; simp [decLoopIO]
  | succ f ih =>
    intro ctr s k
    unfold decLoopIO
    split
    · simp
    · simp only []
      split
      · simp
      · split
        · simp
        · split
          · simp
          · split
            · rename_i e s3 hp
              split at hp
              · split at hp <;> simp at hp
                · rw [← hp.1]; simp
                · rw [← hp.1]; simp
                · split at hp <;> simp at hp
                  rw [← hp.1]; simp
              · simp at hp
            · split
              · simp
              · split
                · simp
                · split
                  · simp
                  · exact ih _ _ _

theorem collapse_decryptChunksIO (A : Aead) (key aad : Bytes) (cs : Nat) (s : Src) (k : Snk) :
    collapseFormat (decryptChunksIO A key aad cs s k).1 = (decryptChunksIO A key aad cs s k).1 := by
  have h := decLoopIO_ne_format A key aad cs (s.inp.length + 1) 0 s k
  unfold decryptChunksIO
  generalize (decLoopIO A key aad cs (s.inp.length + 1) 0 s k).1 = r at h
  cases r <;> first | rfl | exact absurd rfl h

theorem pass_decrypt_eq (P : Prims) (pw : Bytes) (ff : PassFileFormat) (s : Src) (k : Snk) (fuel : Nat)
    (hf : s.inp.length + 1 ≤ fuel) :
    decrypt.pass_decrypt P.aead P s k pw ff fuel =
      some (collapseFormat (passDecryptIO P pw s k).1, (passDecryptIO P pw s k).2.1, (passDecryptIO P pw s k).2.2) := by
  unfold decrypt.pass_decrypt passDecryptIO
  rs_unfold
  cases ff
  simp only [bne_self_eq_false, Bool.false_eq_true, if_false, Rs.Step.andThen_cont, RsIO.readExact, List.length_replicate,
    scrypt_lit, chunk_size_lit]
  rcases hr1 : Src.readExact (s.fuel 4) s 4 with ⟨_ | magic, s1⟩
  · simp [Except.mapError, dec_read_err, collapseFormat]
  · simp only [Except.mapError, valid_file_format_model]
    obtain ⟨m1, hm1, hi1, _⟩ := Src.readExact_frame _ _ _ _ _ hr1
    rcases hv : validFileFormat magic with _ | _ | _
    · simp [errors.From_FileFormatError_for_DecryptError, collapseFormat]
    · simp only []
      rcases hr2 : Src.readExact (s1.fuel 32) s1 32 with ⟨_ | salt, s2⟩
      · simp [dec_read_err, collapseFormat]
      · obtain ⟨m2, hm2, hi2, _⟩ := Src.readExact_frame _ _ _ _ _ hr2
        have hfuel : s2.inp.length + 1 ≤ fuel := by
          rw [hi2, hi1, List.length_drop, List.length_drop]; omega
        simp only [decrypt_chunks_eq P.aead _ _ _ s2 k fuel hfuel, collapse_decryptChunksIO]
        simp <;> exact fun h => h.symm
    · simp [collapseFormat]

theorem key_decrypt_eq (P : Prims) (r rpk : Bytes) (ff : AsymFileFormat) (s : Src) (k : Snk) (fuel : Nat)
    (hf : s.inp.length + 1 ≤ fuel) :
    decrypt.key_decrypt P.aead P s k r rpk ff fuel =
      some (keyResult (keyDecryptIO P r rpk s k).1 (keyDecryptIO P r rpk s k).2.2.2,
        (keyDecryptIO P r rpk s k).2.1, (keyDecryptIO P r rpk s k).2.2.1) := by
  unfold decrypt.key_decrypt keyDecryptIO
  rs_unfold
  cases ff
  simp only [bne_self_eq_false, Bool.false_eq_true, if_false, Rs.Step.andThen_cont, RsIO.readExact, List.length_replicate,
    hkdf_const, chunk_size_lit, show (128 : Nat) = handshakeLen from rfl]
  rcases hr1 : Src.readExact (s.fuel 4) s 4 with ⟨_ | magic, s1⟩
  · simp [Except.mapError, dec_read_err, collapseFormat, keyResult]
  · simp only [Except.mapError, valid_file_format_model]
    obtain ⟨m1, hm1, hi1, _⟩ := Src.readExact_frame _ _ _ _ _ hr1
    rcases hv : validFileFormat magic with _ | _ | _
    · simp [errors.From_FileFormatError_for_DecryptError, collapseFormat, keyResult]
    · simp [collapseFormat, keyResult]
    · simp only []
      rcases hr2 : Src.readExact (s1.fuel handshakeLen) s1 handshakeLen with ⟨_ | msg, s2⟩
      · simp [dec_read_err, collapseFormat, keyResult]
      · obtain ⟨m2, hm2, hi2, _⟩ := Src.readExact_frame _ _ _ _ _ hr2
        have hfuel : s2.inp.length + 1 ≤ fuel := by
          rw [hi2, hi1, List.length_drop, List.length_drop]; omega
        simp only [RsIO.noiseDecrypt]
        rcases hnr : Noise.readMessage P magic r rpk msg with err | ⟨pk, spk, h⟩
        · simp [collapseFormat, keyResult]
        · by_cases hl : pk.length ≠ 32
          · simp [hl, collapseFormat, keyResult]
          · simp only [hl, if_false, decrypt_chunks_eq P.aead _ _ _ s2 k fuel hfuel]
            have hc := collapse_decryptChunksIO P.aead (P.hkdfFile pk h) [] chunkSize s2 k
            by_cases hok : (decryptChunksIO P.aead (P.hkdfFile pk h) [] chunkSize s2 k).1 = Res.ok
            · simp [hok, keyResult]
            · simp [hok, keyResult, hc]

end StreamSrc
end Kestrel
