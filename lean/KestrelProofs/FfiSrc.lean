/-
  FfiSrc — lemmas about `Kestrel.FfiSrc.scrypt`, the translation of `src/ffi/src/lib.rs::scrypt` by tools/rs2lean_ffi.py
  (KestrelModel/GeneratedFfi.lean, regenerated on every run).  The property theorems are in KestrelProps/C18ffi.lean.

  The proofs do not name the locals of the Rust function and do not depend on the order of its `let`s: the generated
  definition is unfolded, its `let`s are substituted, and the glue (`RsMem.kc_scrypt`, `RsMem.copyFromSlice`) is unfolded;
  the length test of `copy_from_slice` is discharged by `Scrypt.Spec.scrypt_length`.
-/
import KestrelModel.GeneratedFfi
import KestrelProofs.Scrypt
namespace Kestrel
namespace FfiSrc

/-- `copy_from_slice` with agreeing lengths is the splice -/
theorem copyFromSlice_eq (mem : List UInt8) (reg : RsMem.Region) (v : List UInt8) (h : v.length = reg.len) :
    RsMem.copyFromSlice mem reg v = mem.take reg.off ++ v ++ mem.drop (reg.off + reg.len) := by
  unfold RsMem.copyFromSlice; rw [if_pos h]

/-- the value the generated function hands to `copy_from_slice` has the length of the region: the panic of
    `copy_from_slice` is unreachable, whatever the arguments -/
theorem scrypt_copy_no_panic (pw salt : List UInt8) (n r p dkLen : Nat) :
    (RsMem.kc_scrypt pw salt n r p dkLen).length = dkLen := by
  unfold RsMem.kc_scrypt; exact Scrypt.Spec.scrypt_length ..

/-- the generated function, in closed form: RFC 7914 scrypt of the two input ranges spliced into memory at the output range.
    No hypothesis (out-of-range reads are truncated by `drop`/`take` on both sides). -/
theorem scrypt_closed (mem : List UInt8) (pw pwLen salt saltLen n r p dk dkLen : Nat) :
    FfiSrc.scrypt mem pw pwLen salt saltLen n r p dk dkLen =
      mem.take dk
        ++ Scrypt.Spec.scrypt ((mem.drop pw).take pwLen) ((mem.drop salt).take saltLen) n r p dkLen
        ++ mem.drop (dk + dkLen) := by
  unfold FfiSrc.scrypt
  simp only [RsMem.copyFromSlice, scrypt_copy_no_panic, if_true]
  simp only [RsMem.kc_scrypt]

/-- the generated side conditions are exactly "the three ranges lie inside memory": the fourth conjunct (no panic in
    `copy_from_slice`) always holds -/
theorem scrypt_pre_iff (mem : List UInt8) (pw pwLen salt saltLen n r p dk dkLen : Nat) :
    FfiSrc.scrypt_pre mem pw pwLen salt saltLen n r p dk dkLen ↔
      pw + pwLen ≤ mem.length ∧ salt + saltLen ≤ mem.length ∧ dk + dkLen ≤ mem.length := by
  unfold FfiSrc.scrypt_pre
  simp only [scrypt_copy_no_panic, and_true] <;> omega

end FfiSrc
end Kestrel
