/-
  Helper lemmas for KestrelProps/CliSrc.lean: the Lean code *generated from* `src/cli/src/main.rs`
  (`KestrelModel/GeneratedCli.lean`, namespace `Kestrel.CliSrc`, produced by tools/rs2lean_cli.py) against the hand-written
  model of the command line `Kestrel.Cli` (KestrelModel/Cli.lean).

  Nothing in this file restates generated code: every lemma about a generated function starts with `unfold` and brings the
  generated body into a normal form by rewriting with facts about the glue (KestrelModel/RsCli.lean) and about the
  model's option declarations (`optT` …).
-/
import Lean
import KestrelModel.GeneratedCli
set_option linter.unusedSimpArgs false

/-! ### a tactic: unfold the helper functions of the generated file -/

section
open Lean Elab Tactic Meta

/-- `unfold_generated_helpers keeping f g …`: unfold, in the goal, every function DEFINED IN THE GENERATED FILE
    (KestrelModel/GeneratedCli.lean) that occurs in it, except the listed ones — so that a proof about a generated function does
    not depend on how the Rust code is cut into helper functions. -/
syntax (name := unfoldGeneratedHelpers) "unfold_generated_helpers" (" keeping " "[" ident,* "]")? : tactic

@[tactic unfoldGeneratedHelpers] def evalUnfoldGeneratedHelpers : Tactic := fun stx => do
  let keepIds : Array Syntax := if stx[1].isNone then #[] else stx[1][2].getSepArgs
  let mut keep : Array Name := #[]
  for id in keepIds do
    keep := keep.push (← realizeGlobalConstNoOverloadWithInfo id)
  let env ← getEnv
  let some modIdx := env.getModuleIdx? `KestrelModel.GeneratedCli | throwError "generated module not imported"
  for _ in [0:8] do
    let goal ← instantiateMVars (← getMainTarget)
    let mut todo : Array Name := #[]
    for c in goal.getUsedConstants do
      if env.getModuleIdxFor? c != some modIdx || keep.contains c || c.isInternal then continue
      let some (.defnInfo _) := env.find? c | continue
      if (← isMatcher c) || (← isProjectionFn c) then continue
      todo := todo.push c
    if todo.isEmpty then return
    for c in todo do
      evalTactic (← `(tactic| unfold $(mkIdent c)))

/-- `unfold_generated_consts`: unfold, in the goal, every CONSTANT (a `def` without parameters: a Rust `const`) of the generated file
    that occurs in it — a proof does not depend on whether the source writes a literal or names it. -/
syntax (name := unfoldGeneratedConsts) "unfold_generated_consts" : tactic

@[tactic unfoldGeneratedConsts] def evalUnfoldGeneratedConsts : Tactic := fun _ => do
  let env ← getEnv
  let some modIdx := env.getModuleIdx? `KestrelModel.GeneratedCli | throwError "generated module not imported"
  for _ in [0:4] do
    let goal ← instantiateMVars (← getMainTarget)
    let mut todo : Array Name := #[]
    for c in goal.getUsedConstants do
      if env.getModuleIdxFor? c != some modIdx || c.isInternal then continue
      let some (.defnInfo info) := env.find? c | continue
      if info.type.isForall then continue
      todo := todo.push c
    if todo.isEmpty then return
    for c in todo do
      evalTactic (← `(tactic| unfold $(mkIdent c)))

end

namespace Kestrel
namespace CliSrc
open RsStr RsCli Cli

/-! ### control flow -/

@[simp] theorem bind_next (s : σ) (f : σ → Flow ρ κ τ) : Flow.bind (.next s) f = f s := rfl
@[simp] theorem bind_ret (r : ρ) (f : σ → Flow ρ κ τ) : Flow.bind (.ret r : Flow ρ κ σ) f = .ret r := rfl
@[simp] theorem bind_cont (k : κ) (f : σ → Flow ρ κ τ) : Flow.bind (.cont k : Flow ρ κ σ) f = .cont k := rfl
@[simp] theorem run_next (r : ρ) : RsStr.run (.next r) = r := rfl
@[simp] theorem run_ret (r : ρ) : RsStr.run (.ret r) = r := rfl
@[simp] theorem propagate_ok (a : α) (g : ε → ρ) : (Flow.propagate (.ok a) g : Flow ρ κ α) = .next a := rfl
@[simp] theorem propagate_error (e : ε) (g : ε → ρ) : (Flow.propagate (.error e : Except ε α) g : Flow ρ κ α) = .ret (g e) := rfl
@[simp] theorem forIn_nil (f : α → σ → Flow ρ σ σ) (s : σ) : (RsStr.forIn [] f s : Flow ρ κ σ) = .next s := rfl

@[simp] theorem map_err_ok (a : α) (f : ε → ε') : RsStr.map_err (.ok a : Except ε α) f = .ok a := rfl
@[simp] theorem map_err_error (e : ε) (f : ε → ε') : RsStr.map_err (.error e : Except ε α) f = .error (f e) := rfl
@[simp] theorem except_map_ok (a : α) (f : α → β) : Except.map f (.ok a : Except ε α) = .ok (f a) := rfl
@[simp] theorem except_map_error (e : ε) (f : α → β) : Except.map f (.error e : Except ε α) = .error e := rfl

@[simp] theorem ok_or_else_some (a : α) (f : Unit → ε) : RsCli.ok_or_else (some a) f = .ok a := rfl
@[simp] theorem ok_or_else_none (f : Unit → ε) : RsCli.ok_or_else (none : Option α) f = .error (f ()) := rfl

theorem forIn_cons (a : α) (as : List α) (f : α → σ → Flow ρ σ σ) (s : σ) :
    (RsStr.forIn (a :: as) f s : Flow ρ κ σ) =
      match f a s with
      | .next s' => RsStr.forIn as f s'
      | .cont s' => RsStr.forIn as f s'
      | .ret r => .ret r := rfl

/-! ### the getopts model: a required option that takes an argument has one after a successful parse -/

/-- every recorded occurrence of an option that takes an argument carries one -/
def ValsOk (opts : List OptSpec) (m : Cli.Matches) : Prop :=
  ∀ p ∈ m.vals, ∀ o, opts[p.1]? = some o → o.hasArg = true → p.2.isSome = true

theorem valsOk_push {opts : List OptSpec} {m : Cli.Matches} (h : ValsOk opts m) (id : Nat) (v : Option Str)
    (hv : ∀ o, opts[id]? = some o → o.hasArg = true → v.isSome = true) :
    ValsOk opts { m with vals := m.vals ++ [(id, v)] } := by
  intro p hp o ho ha
  simp only [List.mem_append, List.mem_singleton] at hp
  cases hp with
  | inl hp => exact h p hp o ho ha
  | inr hp => subst hp; exact hv o ho ha

theorem scan_valsOk (opts : List OptSpec) (fuel : Nat) (args : List Str) (m m' : Cli.Matches)
    (h : ValsOk opts m) (hs : scan opts fuel args m = some m') : ValsOk opts m' := by
  fun_induction scan opts fuel args m
  case case1 => cases hs; exact h
  case case2 => cases hs; exact h
  case case3 ih => exact ih h hs
  case case4 => cases hs; exact h
  case case5 => cases hs
  case case6 => cases hs
  case case7 id _ _ _ _ v _ ih => exact ih (valsOk_push h id (some v) (fun _ _ _ => rfl)) hs
  case case8 id _ _ _ _ v _ _ ih => exact ih (valsOk_push h id (some v) (fun _ _ _ => rfl)) hs
  case case9 => cases hs
  case case10 => cases hs
  case case11 id _ o ho hna _ ih =>
    refine ih (valsOk_push h id none (fun o' ho' ha' => ?_)) hs
    rw [ho] at ho'; cases ho'; exact absurd ha' hna

theorem getopts_scan {opts : List OptSpec} {args : List Str} {m : Cli.Matches} (h : getopts opts args = some m) :
    scan opts (args.length + 1) args {} = some m ∧
    ∀ id o, opts[id]? = some o → ((!o.required || decide (countOpt m id ≥ 1)) && decide (countOpt m id ≤ 1)) = true := by
  unfold getopts at h
  cases hs : scan opts (args.length + 1) args {} with
  | none => rw [hs] at h; cases h
  | some m0 =>
    rw [hs] at h
    simp only [] at h
    split at h
    · rename_i hall
      cases h
      refine ⟨rfl, fun id o ho => ?_⟩
      have hlt : id < opts.length := by
        rcases Nat.lt_or_ge id opts.length with hl | hl
        · exact hl
        · rw [List.getElem?_eq_none hl] at ho; cases ho
      have := (List.all_eq_true.mp hall) id (List.mem_range.mpr hlt)
      rw [ho] at this
      exact this
    · cases h

/-- after a successful parse, a required option that takes an argument has a value -/
theorem getopts_required {opts : List OptSpec} {args : List Str} {m : Cli.Matches} (h : getopts opts args = some m)
    {id : Nat} {o : OptSpec} (ho : opts[id]? = some o) (hr : o.required = true) (ha : o.hasArg = true) :
    ∃ v, optStr m id = some v := by
  obtain ⟨hs, hall⟩ := getopts_scan h
  have hok : ValsOk opts m := scan_valsOk opts _ args {} m (fun p hp => absurd hp (by simp)) hs
  have hc := hall id o ho
  rw [hr] at hc
  simp only [Bool.not_true, Bool.false_or, Bool.and_eq_true, decide_eq_true_eq] at hc
  have hge : countOpt m id ≥ 1 := hc.1
  unfold countOpt at hge
  cases hf : m.vals.find? (·.1 == id) with
  | none =>
    have := List.find?_eq_none.mp hf
    have hnil : m.vals.filter (·.1 == id) = [] := List.filter_eq_nil_iff.mpr (fun p hp => this p hp)
    rw [hnil] at hge; simp at hge
  | some p =>
    have hp1 : (p.1 == id) = true := List.find?_some (p := fun x : Nat × Option Str => x.1 == id) hf
    have hmem : p ∈ m.vals := List.mem_of_find?_eq_some hf
    have hsome := hok p hmem o (by rw [beq_iff_eq.mp hp1]; exact ho) ha
    obtain ⟨v, hv⟩ := Option.isSome_iff_exists.mp hsome
    exact ⟨v, by unfold optStr; rw [hf]; exact hv⟩

/-! ### the option declarations built by the translated code are the model's -/

theorem new_eq : Options.new = ⟨[], false⟩ := rfl
theorem long_only_mk (s : List OptSpec) (b b' : Bool) : Options.long_only ⟨s, b⟩ b' = ⟨s, b'⟩ := rfl
theorem reqopt_mk (s : List OptSpec) (b : Bool) (sh lo d h : Str) :
    Options.reqopt ⟨s, b⟩ sh lo d h = ⟨s ++ [⟨shortOf sh, lo, true, true⟩], b⟩ := rfl
theorem optopt_mk (s : List OptSpec) (b : Bool) (sh lo d h : Str) :
    Options.optopt ⟨s, b⟩ sh lo d h = ⟨s ++ [⟨shortOf sh, lo, true, false⟩], b⟩ := rfl
theorem optflag_mk (s : List OptSpec) (b : Bool) (sh lo d : Str) :
    Options.optflag ⟨s, b⟩ sh lo d = ⟨s ++ [⟨shortOf sh, lo, false, false⟩], b⟩ := rfl
theorem parse_mk (s : List OptSpec) (args : List Str) : Options.parse ⟨s, true⟩ args =
    match Cli.getopts s args with
    | some m => .ok ⟨s, m⟩
    | none => .error (failOf s args) := rfl

theorem optT_eq : (⟨shortOf "t".toList, "to".toList, true, true⟩ : OptSpec) = optT := rfl
theorem optF_eq : (⟨shortOf "f".toList, "from".toList, true, true⟩ : OptSpec) = optF := rfl
theorem optO_eq : (⟨shortOf "o".toList, "output".toList, true, false⟩ : OptSpec) = optO := rfl
theorem optK_eq : (⟨shortOf "k".toList, "keyring".toList, true, false⟩ : OptSpec) = optK := rfl
theorem optE_eq : (⟨shortOf "".toList, "env-pass".toList, false, false⟩ : OptSpec) = optE := rfl

/-- lookups by name in the four declaration lists main.rs uses -/
theorem opt_str_mk (s : List OptSpec) (m : Cli.Matches) (name : Str) (id : Nat) (h : findOpt s name = some id) :
    Matches.opt_str ⟨s, m⟩ name = optStr m id := by unfold Matches.opt_str; simp only [h]
theorem opt_present_mk (s : List OptSpec) (m : Cli.Matches) (name : Str) (id : Nat) (h : findOpt s name = some id) :
    Matches.opt_present ⟨s, m⟩ name = optPresent m id := by unfold Matches.opt_present; simp only [h]
theorem free_mk (s : List OptSpec) (m : Cli.Matches) : Matches.free ⟨s, m⟩ = m.free := rfl

theorem find_enc_t : findOpt [optT, optF, optO, optK, optE] "t".toList = some 0 := by decide
theorem find_enc_f : findOpt [optT, optF, optO, optK, optE] "f".toList = some 1 := by decide
theorem find_enc_o : findOpt [optT, optF, optO, optK, optE] "o".toList = some 2 := by decide
theorem find_enc_k : findOpt [optT, optF, optO, optK, optE] "k".toList = some 3 := by decide
theorem find_enc_e : findOpt [optT, optF, optO, optK, optE] "env-pass".toList = some 4 := by decide
theorem find_dec_t : findOpt [optT, optO, optK, optE] "t".toList = some 0 := by decide
theorem find_dec_o : findOpt [optT, optO, optK, optE] "o".toList = some 1 := by decide
theorem find_dec_k : findOpt [optT, optO, optK, optE] "k".toList = some 2 := by decide
theorem find_dec_e : findOpt [optT, optO, optK, optE] "env-pass".toList = some 3 := by decide
theorem find_oe_o : findOpt [optO, optE] "o".toList = some 0 := by decide
theorem find_oe_e : findOpt [optO, optE] "env-pass".toList = some 1 := by decide
theorem find_e_e : findOpt [optE] "env-pass".toList = some 0 := by decide

/-- the `infile` computed from the free arguments, as in the model -/
theorem infile_eq (l : List Str) : ¬ l.length > 1 →
    (if (l.length == 1) = true then some (Rs.idx l 0) else none) = (match l with | [] => none | f :: _ => some f) := by
  intro h
  match l with
  | [] => rfl
  | [f] => rfl
  | _ :: _ :: _ => simp at h

/-! ### the option parsers -/

/-- the request a result of `parse_encrypt` stands for -/
def reqEncrypt : Except Str commands.EncryptOptions → Request
  | .ok o => .encrypt o.infile o.to o.from o.outfile o.keyring o.env_pass
  | .error _ => .usageError

def reqDecrypt : Except Str commands.DecryptOptions → Request
  | .ok o => .decrypt o.infile o.to o.outfile o.keyring o.env_pass
  | .error _ => .usageError

def reqKey : Except Str KeyCommand → Request
  | .ok (.Generate o e) => .keyGen o e
  | .ok (.ChangePass k e) => .changePass k e
  | .ok (.ExtractPub k e) => .extractPub k e
  | .error _ => .usageError

def reqPassEncrypt : Except Str commands.PasswordOptions → Request
  | .ok o => .passEncrypt o.infile o.outfile o.env_pass
  | .error _ => .usageError

def reqPassDecrypt : Except Str commands.PasswordOptions → Request
  | .ok o => .passDecrypt o.infile o.outfile o.env_pass
  | .error _ => .usageError

def reqPassword : Except Str PasswordCommand → Request
  | .ok (.Encrypt o) => .passEncrypt o.infile o.outfile o.env_pass
  | .ok (.Decrypt o) => .passDecrypt o.infile o.outfile o.env_pass
  | .error _ => .usageError

theorem infileOf_eq (m : Cli.Matches) : infileOf m =
    if m.free.length > 1 then none else some (match m.free with | [] => none | f :: _ => some f) := by
  unfold infileOf
  match m.free with
  | [] => rfl
  | [f] => rfl
  | _ :: _ :: _ => simp

theorem parse_encrypt_eq (args : List Str) : reqEncrypt (parse_encrypt args) = parseEncrypt args := by
  unfold parse_encrypt parseEncrypt
  unfold_generated_helpers
  simp only [new_eq, long_only_mk, reqopt_mk, optopt_mk, optflag_mk, parse_mk, List.nil_append, List.cons_append,
    optT_eq, optF_eq, optO_eq, optK_eq, optE_eq]
  cases h : getopts [optT, optF, optO, optK, optE] args with
  | none => rfl
  | some m =>
    obtain ⟨to, hto⟩ := getopts_required h (id := 0) (o := optT) rfl rfl rfl
    obtain ⟨fr, hfr⟩ := getopts_required h (id := 1) (o := optF) rfl rfl rfl
    simp only [bind_next, map_err_ok, propagate_ok, free_mk, opt_str_mk _ _ _ _ find_enc_t, opt_str_mk _ _ _ _ find_enc_f,
      opt_str_mk _ _ _ _ find_enc_o, opt_str_mk _ _ _ _ find_enc_k, opt_present_mk _ _ _ _ find_enc_e, hto, hfr, infileOf]
    rcases m with ⟨vals, _ | ⟨f, _ | ⟨g, r⟩⟩⟩ <;> rfl

theorem parse_decrypt_eq (args : List Str) : reqDecrypt (parse_decrypt args) = parseDecrypt args := by
  unfold parse_decrypt parseDecrypt
  unfold_generated_helpers
  simp only [new_eq, long_only_mk, reqopt_mk, optopt_mk, optflag_mk, parse_mk, List.nil_append, List.cons_append,
    optT_eq, optF_eq, optO_eq, optK_eq, optE_eq]
  cases h : getopts [optT, optO, optK, optE] args with
  | none => rfl
  | some m =>
    obtain ⟨to, hto⟩ := getopts_required h (id := 0) (o := optT) rfl rfl rfl
    simp only [bind_next, map_err_ok, propagate_ok, free_mk, opt_str_mk _ _ _ _ find_dec_t, opt_str_mk _ _ _ _ find_dec_o,
      opt_str_mk _ _ _ _ find_dec_k, opt_present_mk _ _ _ _ find_dec_e, hto, infileOf]
    rcases m with ⟨vals, _ | ⟨f, _ | ⟨g, r⟩⟩⟩ <;> rfl

/-- what both password parsers compute, in the model's terms -/
def passReq (mk : Option Str → Option Str → Bool → Request) (args : List Str) : Request :=
  match getopts [optO, optE] args with
  | none => .usageError
  | some m =>
    match infileOf m with
    | none => .usageError
    | some inf => mk inf (optStr m 0) (optPresent m 1)

theorem parse_pass_encrypt_eq (args : List Str) : reqPassEncrypt (parse_pass_encrypt args) = passReq .passEncrypt args := by
  unfold parse_pass_encrypt passReq
  unfold_generated_helpers
  simp only [new_eq, long_only_mk, reqopt_mk, optopt_mk, optflag_mk, parse_mk, List.nil_append, List.cons_append,
    optT_eq, optF_eq, optO_eq, optK_eq, optE_eq]
  cases h : getopts [optO, optE] args with
  | none => rfl
  | some m =>
    simp only [bind_next, map_err_ok, propagate_ok, free_mk, opt_str_mk _ _ _ _ find_oe_o, opt_present_mk _ _ _ _ find_oe_e, infileOf]
    rcases m with ⟨vals, _ | ⟨f, _ | ⟨g, r⟩⟩⟩ <;> rfl

theorem parse_pass_decrypt_eq (args : List Str) : reqPassDecrypt (parse_pass_decrypt args) = passReq .passDecrypt args := by
  unfold parse_pass_decrypt passReq
  unfold_generated_helpers
  simp only [new_eq, long_only_mk, reqopt_mk, optopt_mk, optflag_mk, parse_mk, List.nil_append, List.cons_append,
    optT_eq, optF_eq, optO_eq, optK_eq, optE_eq]
  cases h : getopts [optO, optE] args with
  | none => rfl
  | some m =>
    simp only [bind_next, map_err_ok, propagate_ok, free_mk, opt_str_mk _ _ _ _ find_oe_o, opt_present_mk _ _ _ _ find_oe_e, infileOf]
    rcases m with ⟨vals, _ | ⟨f, _ | ⟨g, r⟩⟩⟩ <;> rfl

theorem slice_args_cons1 (a : Str) (l : List Str) : slice_args (a :: l) 1 = l := by
  unfold slice_args
  cases l with
  | nil => rfl
  | cons b r => simp

theorem slice_args_cons2 (a b : Str) (l : List Str) : slice_args (a :: b :: l) 2 = l := by
  unfold slice_args
  cases l with
  | nil => rfl
  | cons c r => simp

/-- a comparison with a string literal of the generated code, in the model's notation -/
theorem beq_lit (s : Str) (x : String) : (s == x.toList) = decide (s = str x) := by
  unfold str; by_cases h : s = x.toList <;> simp [h]

theorem parse_password_eq (args : List Str) : reqPassword (parse_password args) = parsePassword args := by
  unfold parse_password parsePassword
  unfold_generated_helpers keeping [parse_pass_encrypt, parse_pass_decrypt, slice_args]
  cases args with
  | nil => rfl
  | cons sub rest =>
    simp only [List.isEmpty_cons, Bool.false_eq_true, if_false, bind_next]
    simp only [Rs.idx, List.getD_cons_zero, slice_args_cons1, run_next, beq_lit, Bool.or_eq_true, decide_eq_true_eq]
    by_cases he : sub = str "encrypt" ∨ sub = str "enc"
    · simp only [he, if_true, true_or]
      have h := parse_pass_encrypt_eq rest
      unfold passReq at h
      cases hp : parse_pass_encrypt rest with
      | ok o => rw [hp] at h; exact h
      | error e => rw [hp] at h; exact h
    · by_cases hd : sub = str "decrypt" ∨ sub = str "dec"
      · simp only [he, hd, if_true, if_false, or_true]
        have h := parse_pass_decrypt_eq rest
        unfold passReq at h
        cases hp : parse_pass_decrypt rest with
        | ok o => rw [hp] at h; exact h
        | error e => rw [hp] at h; exact h
      · simp only [he, hd, if_false, or_self]; rfl

theorem parse_key_eq (args : List Str) : reqKey (parse_key args) = parseKey args := by
  unfold parse_key parseKey
  unfold_generated_helpers keeping [slice_args]
  cases args with
  | nil => rfl
  | cons sub rest =>
    simp only [List.isEmpty_cons, Bool.false_eq_true, if_false, bind_next]
    simp only [Rs.idx, List.getD_cons_zero, slice_args_cons1, beq_lit, Bool.or_eq_true, decide_eq_true_eq,
      new_eq, long_only_mk, reqopt_mk, optopt_mk, optflag_mk, parse_mk, List.nil_append, List.cons_append, optO_eq, optE_eq]
    by_cases hg : sub = str "gen" ∨ sub = str "generate"
    · simp only [hg, if_true]
      cases h : getopts [optO, optE] rest with
      | none => rfl
      | some m =>
        simp only [bind_next, map_err_ok, propagate_ok, run_next, opt_str_mk _ _ _ _ find_oe_o, opt_present_mk _ _ _ _ find_oe_e]; rfl
    · simp only [hg, if_false]
      by_cases hc : sub = str "change-pass"
      · simp only [hc, if_true]
        cases h : getopts [optE] rest with
        | none => rfl
        | some m =>
          simp only [bind_next, map_err_ok, propagate_ok, free_mk, opt_present_mk _ _ _ _ find_e_e]
          rcases m with ⟨vals, _ | ⟨k, _ | ⟨g, r⟩⟩⟩ <;> rfl
      · simp only [hc, if_false]
        by_cases hx : sub = str "extract-pub"
        · simp only [hx, if_true]
          cases h : getopts [optE] rest with
          | none => rfl
          | some m =>
            simp only [bind_next, map_err_ok, propagate_ok, free_mk, opt_present_mk _ _ _ _ find_e_e]
            rcases m with ⟨vals, _ | ⟨k, _ | ⟨g, r⟩⟩⟩ <;> rfl
        · simp only [hx, if_false]; rfl



/-! ### `convert_args`, `try_main`, `main` -/

/-- a loop whose body, on the elements `h a`, falls through with the state `g a s` -/
theorem forIn_map_next (f : β → σ → Flow ρ σ σ) (h : α → β) (g : α → σ → σ) (hf : ∀ a s, f (h a) s = .next (g a s)) :
    ∀ (l : List α) (s : σ), (RsStr.forIn (l.map h) f s : Flow ρ κ σ) = .next (l.foldl (fun s a => g a s) s)
  | [], _ => rfl
  | a :: l, s => by rw [List.map_cons, forIn_cons, hf a s]; exact forIn_map_next f h g hf l (g a s)

theorem foldl_snoc (l : List α) (acc : List α) : l.foldl (fun s a => s ++ [a]) acc = acc ++ l := by
  induction l generalizing acc with
  | nil => simp
  | cons a l ih => rw [List.foldl_cons, ih]; simp

/-- `collect` into a `Result`: every element succeeds -/
theorem collect_results_map_ok (f : α → Except ε β) (g : α → β) (hf : ∀ a, f a = .ok (g a)) :
    ∀ l : List α, collect_results (l.map f) = .ok (l.map g)
  | [] => rfl
  | a :: l => by simp only [List.map_cons, hf a, collect_results, collect_results_map_ok f g hf l]

/-- `collect` into a `Result`: some element fails, and every element that fails does so with the error `e` -/
theorem collect_results_map_error (f : α → Except ε β) (e : ε) (hf : ∀ a, f a = .error e ∨ ∃ b, f a = .ok b) :
    ∀ l : List α, (∃ a ∈ l, f a = .error e) → collect_results (l.map f) = .error e
  | [], h => by obtain ⟨a, ha, _⟩ := h; cases ha
  | a :: l, h => by
    rcases hf a with he | ⟨b, hb⟩
    · simp only [List.map_cons, he, collect_results]
    · have : ∃ a ∈ l, f a = .error e := by
        obtain ⟨a', ha', he'⟩ := h
        cases ha' with
        | head => rw [hb] at he'; cases he'
        | tail _ hm => exact ⟨a', hm, he'⟩
      simp only [List.map_cons, hb, collect_results, collect_results_map_error f e hf l this]

/-- arguments that are valid Unicode are converted to themselves (whether `convert_args` is a loop that pushes or
    `iter().map(..).collect()`) -/
theorem convert_args_unicode (argv : List Str) : convert_args (argv.map OsString.unicode) = .ok argv := by
  unfold convert_args
  first
  | simp only []
    rw [forIn_map_next _ OsString.unicode (fun a s => s ++ [a]) (fun a s => rfl)]
    simp only [bind_next, run_next, foldl_snoc, List.nil_append]
  | rw [List.map_map]
    exact (collect_results_map_ok _ id (fun a => rfl) argv).trans (congrArg Except.ok (List.map_id argv))

/-- what `try_main` does, as a function of the request: `r` is its result (final process state, `Ok(())` / `Err`) -/
def Dispatch (api : commands.Api) (sys : Sys) (r : Sys × Except AnyErr Unit) : Request → Prop
  | .help => r = (print_help sys, .ok ())
  | .version => r = (print_version sys, .ok ())
  | .usageError => ∃ msg, r = (sys, print_usage_error msg)
  | .encrypt i t f o k e => r = api.encrypt sys ⟨i, t, f, o, k, e⟩
  | .decrypt i t o k e => r = api.decrypt sys ⟨i, t, o, k, e⟩
  | .keyGen o e => r = api.gen_key sys o e
  | .changePass s e => r = api.change_pass sys s e
  | .extractPub s e => r = api.extract_pub sys s e
  | .passEncrypt i o e => r = api.pass_encrypt sys ⟨i, o, e⟩
  | .passDecrypt i o e => r = api.pass_decrypt sys ⟨i, o, e⟩

theorem contains_lit (l : List Str) (x : String) : List.contains l x.toList = l.contains (str x) := rfl

/-- `f(x)?` as the last statement of an arm of `try_main`'s dispatch: the result of `f`, whatever it is -/
theorem call_try (r : Sys × Except AnyErr Unit) (k : Sys → Flow (Sys × Except AnyErr Unit) Empty (Sys × Except AnyErr Unit))
    (hk : ∀ s, k s = .next (s, .ok ())) :
    RsStr.run (Flow.bind (Flow.bind (Flow.propagate r.2 (fun err' => (r.1, Except.error err'))) fun (_ : Unit) => Flow.next r.1) k) = r := by
  obtain ⟨s, r⟩ := r
  cases r with
  | ok u => simp only [propagate_ok, bind_next, hk, run_next]
  | error e => rfl

theorem bind_next_id (x : Flow ρ κ σ) : Flow.bind x (fun s => Flow.next s) = x := by cases x <;> rfl

theorem usage_try (sys : Sys) (msg : Str) (k : Sys → Flow (Sys × Except AnyErr Unit) Empty (Sys × Except AnyErr Unit)) :
    RsStr.run (Flow.bind (Flow.bind (Flow.propagate (print_usage_error msg) (fun err' => (sys, Except.error err'))) fun (_ : Unit) => Flow.next sys) k)
      = (sys, print_usage_error msg) := rfl

theorem not_contains_cons2 {p cmd x : Str} {rest : List Str} (h : (p :: cmd :: rest).contains x = false) : cmd ≠ x := by
  intro e
  subst e
  simp [List.contains_cons] at h

theorem try_main_spec (api : commands.Api) (sys : Sys) (argv : List Str) (h : sys.args = argv.map .unicode) :
    Dispatch api sys (try_main api sys) (parseArgv argv) := by
  unfold try_main parseArgv
  simp only [args_os, h, convert_args_unicode, propagate_ok, bind_next, List.map_id']
  match argv with
  | [] => simp only [List.length_nil, Nat.zero_le, decide_true, Bool.true_or, if_true, bind_ret, run_ret]; rfl
  | [p] => simp only [List.length_cons, List.length_nil, Nat.le_refl, decide_true, Bool.true_or, if_true, bind_ret, run_ret]; rfl
  | p :: cmd :: rest =>
    have hlen : decide ((p :: cmd :: rest).length ≤ 1) = false := by simp
    simp only [hlen, Bool.false_or, contains_lit, Rs.idx, List.getD_cons_succ, List.getD_cons_zero, slice_args_cons2, beq_lit,
      Bool.or_eq_true, decide_eq_true_eq]
    simp only [bind_next_id]
    by_cases hh : ((p :: cmd :: rest).contains (str "--help") || (p :: cmd :: rest).contains (str "-h")) = true
    · have hh' := hh
      simp only [Bool.or_eq_true] at hh'
      simp only [hh, hh', if_true, bind_ret, run_ret]; rfl
    · have hh' := hh
      simp only [Bool.or_eq_true, not_or, Bool.not_eq_true] at hh'
      have h1 : cmd ≠ str "--help" := not_contains_cons2 hh'.1
      have h2 : cmd ≠ str "-h" := not_contains_cons2 hh'.2
      simp only [hh, hh'.1, hh'.2, Bool.false_eq_true, or_self, if_false, bind_next, h1, h2]
      by_cases hv : cmd = str "-v" ∨ cmd = str "--version"
      · simp only [hv, if_true, bind_ret, run_ret]; rfl
      simp only [hv, if_false]
      by_cases he : cmd = str "enc" ∨ cmd = str "encrypt"
      · simp only [he, if_true]
        have hq := parse_encrypt_eq rest
        cases hp : parse_encrypt rest with
        | ok o => rw [hp] at hq; rw [← hq]; exact call_try (api.encrypt sys o) _ (fun _ => rfl)
        | error e => rw [hp] at hq; rw [← hq]; exact ⟨e, rfl⟩
      simp only [he, if_false]
      by_cases hd : cmd = str "dec" ∨ cmd = str "decrypt"
      · simp only [hd, if_true]
        have hq := parse_decrypt_eq rest
        cases hp : parse_decrypt rest with
        | ok o => rw [hp] at hq; rw [← hq]; exact call_try (api.decrypt sys o) _ (fun _ => rfl)
        | error e => rw [hp] at hq; rw [← hq]; exact ⟨e, rfl⟩
      simp only [hd, if_false]
      by_cases hk : cmd = str "key"
      · simp only [hk, if_true]
        have hq := parse_key_eq rest
        cases hp : parse_key rest with
        | ok kc =>
          rw [hp] at hq; rw [← hq]
          cases kc with
          | Generate o e => exact call_try (api.gen_key sys o e) _ (fun _ => rfl)
          | ChangePass k e => exact call_try (api.change_pass sys k e) _ (fun _ => rfl)
          | ExtractPub k e => exact call_try (api.extract_pub sys k e) _ (fun _ => rfl)
        | error e => rw [hp] at hq; rw [← hq]; exact ⟨e, rfl⟩
      simp only [hk, if_false]
      by_cases hpw : cmd = str "pass" ∨ cmd = str "password"
      · simp only [hpw, if_true]
        have hq := parse_password_eq rest
        cases hp : parse_password rest with
        | ok pc =>
          rw [hp] at hq; rw [← hq]
          cases pc with
          | Encrypt o => exact call_try (api.pass_encrypt sys o) _ (fun _ => rfl)
          | Decrypt o => exact call_try (api.pass_decrypt sys o) _ (fun _ => rfl)
        | error e => rw [hp] at hq; rw [← hq]; exact ⟨e, rfl⟩
      simp only [hpw, if_false]
      exact ⟨_, rfl⟩

/-- a loop over operating-system strings whose body goes on at Unicode strings and returns `r` at any other -/
theorem forIn_os_ret (f : OsString → σ → Flow ρ σ σ) (g : Str → σ → σ) (r : ρ)
    (h1 : ∀ s acc, f (.unicode s) acc = .next (g s acc)) (h2 : ∀ b acc, f (.other b) acc = .ret r) :
    ∀ (l : List OsString) (acc : σ), (∃ a ∈ l, a.to_str = none) → (RsStr.forIn l f acc : Flow ρ κ σ) = .ret r
  | [], _, h => by obtain ⟨a, ha, _⟩ := h; cases ha
  | a :: as, acc, h => by
    rw [forIn_cons]
    cases a with
    | other b => rw [h2]
    | unicode s =>
      rw [h1]
      apply forIn_os_ret f g r h1 h2 as (g s acc)
      obtain ⟨a, ha, hn⟩ := h
      cases ha with
      | head => cases hn
      | tail _ hm => exact ⟨a, hm, hn⟩

/-- an argument that is not valid Unicode: `convert_args` fails -/
theorem convert_args_other (args : List OsString) (h : ∃ a ∈ args, a.to_str = none) :
    convert_args args = .error (.msg "Arguments must be valid UTF-8".toList "Arguments must be valid UTF-8".toList) := by
  unfold convert_args
  first
  | simp only []
    rw [forIn_os_ret _ (fun s acc => acc ++ [s]) _ (fun _ _ => rfl) (fun _ _ => rfl) args [] h]
    rfl
  | refine collect_results_map_error _ _ (fun a => ?_) args ?_
    · cases a with
      | unicode s => exact .inr ⟨s, rfl⟩
      | other b => exact .inl rfl
    · obtain ⟨a, ha, hn⟩ := h
      refine ⟨a, ha, ?_⟩
      cases a with
      | unicode s => cases hn
      | other b => rfl

/-- … and `try_main` returns that error without printing anything or calling a command -/
theorem try_main_bad_unicode (api : commands.Api) (sys : Sys) (h : ∃ a ∈ sys.args, a.to_str = none) :
    try_main api sys = (sys, .error (.msg "Arguments must be valid UTF-8".toList "Arguments must be valid UTF-8".toList)) := by
  unfold try_main
  simp only [args_os, convert_args_other sys.args h, propagate_error, bind_ret, run_ret]

/-- `main`: run `try_main`; on `Err(e)` print "Error: …" to standard error and exit with code 1 -/
theorem main_eq (api : commands.Api) (sys : Sys) :
    main api sys =
      match try_main api sys with
      | (s, .ok ()) => s
      | (s, .error e) => process_exit (print_stderr s ("Error: ".toList ++ e.to_string ++ "\n".toList)) 1 := by
  unfold main
  rcases try_main api sys with ⟨s, (e | u)⟩
  · rfl
  · rfl

end CliSrc
end Kestrel
