/-
  Helper lemmas for KestrelProps/StreamSrcEnc.lean: the Lean code *generated from* `src/crypto/src/encrypt.rs`
  (KestrelModel/GeneratedStream.lean, namespace `Kestrel.StreamSrc.encrypt`, produced by tools/rs2lean_stream.py) equals the
  hand-written I/O-level model `encryptChunksIO` / `passEncryptIO` / `keyEncryptIO` on every source / sink script.

  Route for `encrypt_chunks` (see the header of StreamSrcCommon.lean for what is and what is not shape-dependent):
    encStep        one run of the MODEL's loop body as a `Rs.Flow` over the model's own loop state `EncM`;
    enc_loop_sim   for ANY loop body `body : σ → Rs.Flow σ _` and ANY relation `V` between σ and `EncM` that `body` and
                   `encStep` preserve, `Rs.loop body` and `encLoopIO` agree (for fuels above the measure);
    encV8, encV7   the views of the loop variables of `encrypt_chunks` (source, read buffer, [done,] auth_data, sink, previous
                   chunk, its length, counter) as an `EncM`, with the buffer-length invariants (with and without a `done`
                   flag carried from one iteration to the next);
    enc_body_core  one run of the generated body against `encStep` under a view (the generated body is unfolded, its
                   helper functions and constants with it; nothing of its text is restated);
    encrypt_chunks_eq  the function itself: pre-loop code by `simp`, then `enc_loop_sim`; the views are tried in turn.
-/
import KestrelProofs.StreamSrcCommon
import KestrelProofs.EncIO
namespace Kestrel
namespace StreamSrc

/-! ### the model's loop as a `Rs.Flow` step -/

/-- the loop state of `encLoopIO` -/
structure EncM where
  s : Src
  k : Snk
  ctr : Nat
  prev : Bytes
  done : Bool

/-- one iteration of `encLoopIO` -/
def encStep (A : Aead) (key aad : Bytes) (cs : Nat) (m : EncM) : Rs.Flow EncM (Res × Src × Snk) :=
  match m.s.read cs with
  | (.err, s') => .ret (.ioRead, s', m.k)
  | (.interrupted, s') => .ret (.ioRead, s', m.k)
  | (.got r, s') =>
    if r.length ≠ 0 && m.done then .ret (.unexpectedData, s', m.k) else
    let done' := m.done || r.length == 0
    let lastB := be32 (if done' then 1 else 0)
    let lenB := be32 m.prev.length
    match writeRecord m.k (s'.pos, s'.nreads) (be64 m.ctr ++ lastB ++ lenB) (A.enc key m.ctr (aad ++ lastB ++ lenB) m.prev) with
    | (false, k') => .ret (.ioWrite, s', k')
    | (true, k') => if done' then .brk ⟨s', k', m.ctr, m.prev, done'⟩ else .next ⟨s', k', m.ctr + 1, r, false⟩

/-- outcomes of a generated loop body and of the model step correspond: `V true` relates the states at the loop head,
    `V false` the states at a `break` -/
def EncFlowRel {σ : Type} (V : Bool → σ → EncM → Prop) : Rs.Flow σ (Res × Src × Snk) → Rs.Flow EncM (Res × Src × Snk) → Prop
  | .next a, .next b => V true a b
  | .brk a, .brk b => V false a b
  | .ret r, .ret r' => r = r'
  | _, _ => False

/-- **any** loop body that simulates `encStep` under a view `V` computes `encLoopIO` (fuels above the measure) -/
theorem enc_loop_sim {σ : Type} (A : Aead) (key aad : Bytes) (cs : Nat) (body : σ → Rs.Flow σ (Res × Src × Snk))
    (V : Bool → σ → EncM → Prop) (hb : ∀ st m, V true st m → EncFlowRel V (body st) (encStep A key aad cs m)) :
    ∀ (g f : Nat) (st : σ) (m : EncM), V true st m →
      m.s.inp.length + m.s.script.length + 1 ≤ g → m.s.inp.length + m.s.script.length + 1 ≤ f →
      LoopRel (fun st s k => ∃ m', V false st m' ∧ m'.s = s ∧ m'.k = k) (Rs.loop body g st)
        (encLoopIO A key aad cs f m.ctr m.prev m.done m.s m.k) := by
  intro g
  induction g with
  | zero => intro f st m _ hg _; omega
  | succ g ih =>
    intro f st m hV hg hf
    obtain ⟨f, rfl⟩ : ∃ f', f = f' + 1 := ⟨f - 1, by omega⟩
    have h := hb st m hV
    rw [Rs.loop_succ]
    simp only [encLoopIO]
    unfold encStep at h
    rcases hrd : m.s.read cs with ⟨r | _ | _, s'⟩
    · rw [hrd] at h
      simp only [] at h ⊢
      by_cases hu : (r.length ≠ 0 && m.done) = true
      · simp only [hu, if_true] at h ⊢
        generalize body st = x at h
        cases x <;> simp only [EncFlowRel] at h
        simp only [LoopRel, h]
      · simp only [hu, Bool.false_eq_true, if_false] at h ⊢
        rcases hw : writeRecord m.k (s'.pos, s'.nreads) _ _ with ⟨_ | _, k'⟩
        · rw [hw] at h
          generalize body st = x at h
          cases x <;> simp only [EncFlowRel] at h
          simp only [LoopRel, h]
        · rw [hw] at h
          simp only [] at h ⊢
          by_cases hd : (m.done || r.length == 0) = true
          · simp only [hd, if_true] at h ⊢
            generalize body st = x at h
            cases x <;> simp only [EncFlowRel] at h
            simp only [LoopRel]
            exact ⟨s', k', ⟨_, h, rfl, rfl⟩, rfl⟩
          · have hr : r.length ≠ 0 := by
              intro h0; apply hd; simp [h0]
            have hm := EncIO.read_got_measure hrd hr
            have hd' : (m.done || r.length == 0) = false := by simpa using hd
            simp only [hd', Bool.false_eq_true, if_false] at h ⊢
            generalize body st = x at h
            cases x <;> simp only [EncFlowRel] at h
            rename_i st'
            exact ih f st' ⟨s', k', m.ctr + 1, r, false⟩ h (by simp only []; omega) (by simp only []; omega)
    · rw [hrd] at h
      generalize body st = x at h
      cases x <;> simp only [EncFlowRel] at h
      simp only [LoopRel, h]
    · rw [hrd] at h
      generalize body st = x at h
      cases x <;> simp only [EncFlowRel] at h
      simp only [LoopRel, h]

/-! ### the views of the loop variables of `encrypt_chunks` -/

/-- The 8 variables the loop body of `encrypt_chunks` assigns, in the translator's order (first assignment inside the
    loop): source, read buffer, `done`, `auth_data`, sink, previous chunk buffer, its fill, chunk counter.
    `head` = at the loop head (all invariants) or at a `break` (only source and sink matter afterwards);
    `strong` = the AAD prefix of `auth_data` is an invariant (it is written before the loop, not in it).
    Of the previous-chunk buffer only its first `n` bytes are related to the model (`prev.take n = m.prev`); of the rest only
    the length is known.  That is why it does not matter whether the look-ahead buffer is copied into it or the two buffers
    are exchanged: the stale bytes beyond `n`, and the stale contents of the read buffer, are not part of the view. -/
def encV8 (cs : Nat) (aad : Bytes) (strong : Prop) (head : Bool) :
    Src × Bytes × Bool × Bytes × Snk × Bytes × Nat × Nat → EncM → Prop
  | (s, buff, done, auth, k, prev, n, ctr), m =>
    s = m.s ∧ k = m.k ∧ (head = true → ctr = m.ctr ∧ done = m.done ∧ prev.take n = m.prev ∧ n ≤ prev.length ∧
      prev.length = cs ∧ buff.length = cs ∧ auth.length = aad.length + 8 ∧ (strong → auth.take aad.length = aad))

/-- The same without a `done` flag among the loop variables: the body recomputes it on every iteration, and at the loop
    head the model's flag is determined by the fill of the previous chunk (`m.done = (n == 0)`: only an empty first read
    leaves an empty previous chunk). -/
def encV7 (cs : Nat) (aad : Bytes) (strong : Prop) (head : Bool) :
    Src × Bytes × Bytes × Snk × Bytes × Nat × Nat → EncM → Prop
  | (s, buff, auth, k, prev, n, ctr), m =>
    s = m.s ∧ k = m.k ∧ (head = true → ctr = m.ctr ∧ m.done = (n == 0) ∧ prev.take n = m.prev ∧ n ≤ prev.length ∧
      prev.length = cs ∧ buff.length = cs ∧ auth.length = aad.length + 8 ∧ (strong → auth.take aad.length = aad))

 -- (unhygienic on purpose: the macros refer to `cs` and introduce names their caller's context provides / uses)
set_option hygiene false in
/-- one run of the generated loop body against `encStep`; expects `s buff auth k prev n ctr` and `hn hp hb ha hs` in the
    context (the view-specific part, which destructures the tuple of loop variables, comes before); `$dcase` is the case
    distinction on the `done` flag at the loop head.  The body is never restated. -/
local macro "enc_body_core" dcase:tactic : tactic => `(tactic|
  (have hpl : (List.take n prev).length = n := by rw [List.length_take]; omega
   unfold encrypt.encrypt_chunks.loop1 encStep
   rs_unfold
   simp only [RsIO.read, hb]
   rcases hrd : Src.read s cs with ⟨r | _ | _, s'⟩
   · have hrl : r.length ≤ cs := by
       obtain ⟨j, hj, _, _, hl, _⟩ := Src.read_got hrd
       omega
     simp only [hdr_fill' _ _ _ _ (List.length_replicate ..) (be64_length _) (be32_length _) (be32_length _)]
     first
       | simp only [auth_fill' _ _ _ _ ha (be32_length _) (be32_length _)]
       | simp only [auth_fill2' _ _ _ _ ha (hs trivial) (be32_length _) (be32_length _)]
     simp only [be32_truncU32, hpl, Except.mapError]
     $dcase:tactic <;> by_cases hr : r.length = 0 <;>
       simp [hr, writeRecord, RsIO.writeAll, RsIO.flush, encrypt.write_err, EncFlowRel, encV8, encV7]
     all_goals
       rcases hw1 : Snk.writeAll (Src.pos s', Src.nreads s') _ k (be64 ctr ++ _) with ⟨_ | _, k1⟩
       · simp [EncFlowRel]
       · simp only []
         rcases hw2 : Snk.writeAll (Src.pos s', Src.nreads s') _ k1 _ with ⟨_ | _, k2⟩
         · simp [EncFlowRel]
         · simp only []
           rcases hf : Snk.flush k2 with ⟨_ | _, k3⟩ <;>
             simp [hr, EncFlowRel, encV8, encV7, take_aad, List.length_append, List.length_drop, be32_length] <;> omega
   · simp only [Except.mapError, encrypt.read_err, EncFlowRel]
   · simp only [Except.mapError, encrypt.read_err, EncFlowRel]))

set_option hygiene false in
/-- `Rs.loop body fuel st0 = x` (hypothesis `hx`, body and initial state as the generated function has them) against
    `encLoopIO`, through a view `$V` of the loop variables; `$hbody` proves the simulation of one iteration and `$hfin`
    reads source and sink off the state at the `break`; then the code after the loop -/
local macro "enc_via" V:term "," hbody:tactic "," hfin:tactic : tactic => `(tactic|
  (refine no_implicit_lambda%
     (have hsim : LoopRel (fun st s k => ∃ m', $V false st m' ∧ m'.s = s ∧ m'.k = k) x
       (encLoopIO A key aad cs (s'.inp.length + s'.script.length + 2) 0 r (r.length == 0) s' k) := ?_; ?_)
   · rw [← hx]
     refine enc_loop_sim A key aad cs _ $V ?_ fuel _ _ ⟨s', k, 0, r, r.length == 0⟩ ?_ ?_ ?_
     · intro st m hV
       $hbody:tactic
     · refine ⟨rfl, rfl, fun _ => ⟨rfl, rfl, List.take_left' rfl, ?_, ?_, ?_, ?_, fun hstrong => ?_⟩⟩
       · simp only [List.length_append] <;> omega
       · simp only [List.length_append, List.length_drop, List.length_replicate] <;> omega
       · simp only [List.length_append, List.length_drop, List.length_replicate] <;> omega
       · simp only [List.length_append, List.length_take, List.length_drop, List.length_replicate, length_copyFromSlice] <;> omega
       · first
           | exact hstrong.elim
           | exact auth_init_strong aad
     · simp only []; omega
     · simp only []; omega
   · rcases x with st' | res | _
     · obtain ⟨s1, k1, ⟨m', hV', rfl, rfl⟩, he⟩ := hsim
       $hfin:tactic
     · simp only [LoopRel] at hsim
       simp only [hsim]
     · exact hsim.elim))

set_option hygiene false in
local macro "enc_via8" strong:term : tactic => `(tactic|
  enc_via (encV8 cs aad $strong),
    (obtain ⟨s, buff, done, auth, k, prev, n, ctr⟩ := st
     obtain ⟨ms, mk, mctr, mprev, mdone⟩ := m
     simp only [encV8] at hV
     obtain ⟨rfl, rfl, hV⟩ := hV
     obtain ⟨rfl, rfl, rfl, hn, hp, hb, ha, hs⟩ := hV trivial
     enc_body_core (cases done)),
    (obtain ⟨a1, a2, a3, a4, a5, a6, a7, a8⟩ := st'
     simp only [encV8] at hV'
     obtain ⟨rfl, rfl, _⟩ := hV'
     simp only [he]))

set_option hygiene false in
local macro "enc_via7" strong:term : tactic => `(tactic|
  enc_via (encV7 cs aad $strong),
    (obtain ⟨s, buff, auth, k, prev, n, ctr⟩ := st
     obtain ⟨ms, mk, mctr, mprev, mdone⟩ := m
     simp only [encV7] at hV
     obtain ⟨rfl, rfl, hV⟩ := hV
     obtain ⟨rfl, rfl, rfl, hn, hp, hb, ha, hs⟩ := hV trivial
     enc_body_core (generalize hd : (n == 0) = d; cases d)),
    (obtain ⟨a1, a2, a3, a4, a5, a6, a7⟩ := st'
     simp only [encV7] at hV'
     obtain ⟨rfl, rfl, _⟩ := hV'
     simp only [he]))

/-- the translated `encrypt_chunks` is the hand-written I/O-level model, for every fuel at or above the bound -/
theorem encrypt_chunks_eq (A : Aead) (key aad : Bytes) (cs : Nat) (s : Src) (k : Snk) (fuel : Nat)
    (hf : s.inp.length + s.script.length + 2 ≤ fuel) :
    encrypt.encrypt_chunks A s k key aad cs fuel = some (encryptChunksIO A key aad cs s k) := by
  unfold encrypt.encrypt_chunks encryptChunksIO
  rs_unfold
  simp only [RsIO.read, List.length_replicate]
  rcases hrd : s.read cs with ⟨r | _ | _, s'⟩
  · simp only [Except.mapError, ite_true_false]
    obtain ⟨j, hj, _, _, hrl, hi, _, _, pre, hsc⟩ := Src.read_got hrd
    have hm : s'.inp.length + s'.script.length ≤ s.inp.length + s.script.length := by
      rw [hi, hsc, List.length_drop, List.length_append]; omega
    generalize hx : Rs.loop _ fuel _ = x
    first
      | enc_via8 False
      | enc_via8 True
      | enc_via7 False
      | enc_via7 True
  · simp only [Except.mapError, encrypt.read_err]
  · simp only [Except.mapError, encrypt.read_err]

/-! ### transfer of properties of the hand-written model to the translated code -/

open EncIO in
/-- every outcome of the translated `encrypt_chunks` is one of four, and the two I/O outcomes have a cause in the scripts -/
theorem enc_failures_surface (A : Aead) (key aad : Bytes) (cs : Nat) (s : Src) (k : Snk) (fuel : Nat)
    (hf : s.inp.length + s.script.length + 2 ≤ fuel) :
    ∃ res s' k', encrypt.encrypt_chunks A s k key aad cs fuel = some (res, s', k') ∧
      (res = .ok ∨ res = .ioRead ∨ res = .ioWrite ∨ res = .unexpectedData) ∧
      (res = .ioRead → Src.hasErr s) ∧ (res = .ioWrite → ¬ Snk.benign k) := by
  refine ⟨_, _, _, encrypt_chunks_eq A key aad cs s k fuel hf, encryptChunksIO_res A key aad cs s k,
    encryptChunksIO_ioRead A key aad cs s k, encryptChunksIO_ioWrite A key aad cs s k⟩

open EncIO in
theorem enc_prefix (A : Aead) (key aad : Bytes) (cs : Nat) (s : Src) (k : Snk) (fuel : Nat)
    (hf : s.inp.length + s.script.length + 2 ≤ fuel) :
    ∃ res s' k' p, encrypt.encrypt_chunks A s k key aad cs fuel = some (res, s', k') ∧ k'.out = k.out ++ p ∧
      p <+: (encryptChunks A key aad (Src.reads cs s)).1 ∧
      (res = .ok → p = (encryptChunks A key aad (Src.reads cs s)).1) := by
  obtain ⟨p, h1, h2, h3⟩ := encryptChunksIO_prefix A key aad cs s k
  exact ⟨_, _, _, p, encrypt_chunks_eq A key aad cs s k fuel hf, h1, h2, h3⟩

open EncIO in
theorem enc_faultFree (A : Aead) (key aad : Bytes) (cs : Nat) (hcs : 0 < cs) (s : Src) (k : Snk) (fuel : Nat)
    (hf : s.inp.length + s.script.length + 2 ≤ fuel) (hs : Src.faultFree s) (hk : Snk.benign k) :
    ∃ s' k', encrypt.encrypt_chunks A s k key aad cs fuel = some (.ok, s', k') ∧
      k'.out = k.out ++ serialize A key aad be64 0 (fileChunks (Src.reads cs s)) ∧ (Src.reads cs s).flatten = s.inp := by
  obtain ⟨h1, h2⟩ := encryptChunksIO_faultFree A key aad cs hcs s k hs hk
  rw [encryptChunks_reads] at h1 h2
  refine ⟨(encryptChunksIO A key aad cs s k).2.1, (encryptChunksIO A key aad cs s k).2.2, ?_, h2, reads_flatten cs hcs s hs⟩
  have h1' : (encryptChunksIO A key aad cs s k).1 = Res.ok := h1
  rw [encrypt_chunks_eq A key aad cs s k fuel hf, ← h1']

/-! ### file level: `pass_encrypt`, `key_encrypt`

  Straight-line code: the generated function is unfolded (constants and helpers with it), the scripted writes are case-split
  in the order the MODEL performs them, and `simp` closes each branch; `encrypt_chunks_eq` is used as a rewrite rule, so how
  the result of `encrypt_chunks` is passed on (`…?; Ok(())` or as the final expression) does not matter (`requestion`). -/

open Generated

theorem pass_encrypt_eq (P : Prims) (pw salt : Bytes) (ff : PassFileFormat) (s : Src) (k : Snk) (fuel : Nat)
    (hf : s.inp.length + s.script.length + 2 ≤ fuel) :
    encrypt.pass_encrypt P.aead P s k pw salt ff fuel = some (passEncryptIO P pw salt s k) := by
  unfold encrypt.pass_encrypt passEncryptIO writeRecord
  rs_unfold
  simp only [scrypt_lit, RsIO.writeAll, RsIO.flush, show ([101, 103, 107, 32] : Bytes) = encPassMagic from rfl, chunk_size_lit]
  rcases hw1 : Snk.writeAll (s.pos, s.nreads) _ k encPassMagic with ⟨_ | _, k1⟩
  · simp [encrypt.write_err, Except.mapError]
  · simp only []
    rcases hw2 : Snk.writeAll (s.pos, s.nreads) _ k1 salt with ⟨_ | _, k2⟩
    · simp [encrypt.write_err, Except.mapError]
    · simp only []
      rcases hfl : k2.flush with ⟨_ | _, k3⟩
      · simp [encrypt.write_err, Except.mapError]
      · simp [Except.mapError, encrypt_chunks_eq P.aead _ _ _ s k3 fuel hf] <;> exact fun h => h.symm

theorem key_encrypt_eq (P : Prims) (rand : Nat → Bytes) (s spk rs e epk pk : Bytes) (ff : AsymFileFormat) (src : Src) (k : Snk)
    (fuel : Nat) (hf : src.inp.length + src.script.length + 2 ≤ fuel) :
    encrypt.key_encrypt P.aead P rand src k s spk rs (some e) (some epk) (some pk) ff fuel =
      some (keyEncryptIO P s spk rs e epk pk src k) := by
  unfold encrypt.key_encrypt keyEncryptIO writeRecord
  rs_unfold
  simp only [RsIO.noiseEncrypt, hkdf_const, RsIO.writeAll, RsIO.flush, show ([101, 103, 107, 16] : Bytes) = encPrologue from rfl,
    chunk_size_lit]
  rcases hn : Noise.writeMessage P encPrologue s spk rs e epk pk with err | ⟨msg, h⟩
  · simp [Except.mapError]
  · simp only [Except.mapError]
    rcases hw1 : Snk.writeAll (src.pos, src.nreads) _ k encPrologue with ⟨_ | _, k1⟩
    · simp [encrypt.write_err]
    · simp only []
      rcases hw2 : Snk.writeAll (src.pos, src.nreads) _ k1 msg with ⟨_ | _, k2⟩
      · simp [encrypt.write_err]
      · simp only []
        rcases hfl : k2.flush with ⟨_ | _, k3⟩
        · simp [encrypt.write_err]
        · simp [encrypt_chunks_eq P.aead _ _ _ src k3 fuel hf] <;> exact fun h => h.symm

end StreamSrc
end Kestrel
