/-
  Encrypt side: refinement between the pure look-ahead loop (`encLoop` over the list of read results) and the
  I/O-level loop (`encLoopIO` over a scripted source and sink), and what follows from it
  (prefix property for every script, error classification, nonce sequence, read/write interleaving).
-/
import KestrelModel.File
import KestrelProofs.Chunks
namespace Kestrel.EncIO
open Kestrel

/-! ### script predicates -/

/-- every scripted read delivers at least one byte (as far as data remains) and none fails -/
def Src.faultFree (s : Src) : Prop := ∀ e ∈ s.script, ∃ n, e = RdEv.data n ∧ 1 ≤ n

/-- the script contains an error event (hard or `Interrupted`) -/
def Src.hasErr (s : Src) : Prop := ∃ e ∈ s.script, e = RdEv.errOther ∨ e = RdEv.errInterrupted

def WsFaultFree (ws : List WrEv) : Prop := ∀ e ∈ ws, ∃ n, e = WrEv.accept n ∧ 1 ≤ n
def WsBenign (ws : List WrEv) : Prop := ∀ e ∈ ws, e = WrEv.errInterrupted ∨ ∃ n, e = WrEv.accept n ∧ 1 ≤ n
def FsOk (fs : List FlEv) : Prop := ∀ f ∈ fs, f = FlEv.ok

/-- every scripted write accepts at least one byte, every scripted flush succeeds -/
def Snk.faultFree (k : Snk) : Prop := WsFaultFree k.ws ∧ FsOk k.fs
/-- as `faultFree`, but writes may also be `Interrupted` (which `write_all` retries) -/
def Snk.benign (k : Snk) : Prop := WsBenign k.ws ∧ FsOk k.fs

theorem Snk.faultFree.benign {k : Snk} (h : Snk.faultFree k) : Snk.benign k :=
  ⟨fun e he => Or.inr (h.1 e he), h.2⟩

theorem Src.faultFree_iff_conforming (s : Src) : Src.faultFree s ↔ ∀ e ∈ s.script, e.conforming = true := by
  constructor
  · intro h e he
    obtain ⟨n, rfl, hn⟩ := h e he
    simpa [RdEv.conforming] using hn
  · intro h e he
    have := h e he
    cases e with
    | data n => exact ⟨n, rfl, by simpa [RdEv.conforming] using this⟩
    | errOther => simp [RdEv.conforming] at this
    | errInterrupted => simp [RdEv.conforming] at this

theorem Src.faultFree.not_hasErr {s : Src} (h : Src.faultFree s) : ¬ Src.hasErr s := by
  rintro ⟨e, he, h1 | h1⟩ <;> obtain ⟨n, hn, _⟩ := h e he <;> rw [h1] at hn <;> cases hn

/-! ### one `read()` -/

theorem read_got {s s' : Src} {cs : Nat} {r : Bytes} (h : s.read cs = (.got r, s')) :
    ∃ j, j ≤ cs ∧ r = s.inp.take j ∧ s'.inp = s.inp.drop j ∧ s'.script = s.script.tail ∧
      s'.nreads = s.nreads + 1 ∧ s'.pos = s.pos + r.length ∧ (Src.faultFree s → 0 < cs → 0 < j) := by
  unfold Src.read at h
  split at h
  · rename_i hs
    simp only [Prod.mk.injEq, RdRes.got.injEq] at h
    obtain ⟨h1, h2⟩ := h
    subst h1 h2
    refine ⟨cs, Nat.le_refl _, rfl, rfl, by simp [hs], rfl, by simp [List.length_take], fun _ h => h⟩
  · rename_i n sc hs
    simp only [Prod.mk.injEq, RdRes.got.injEq] at h
    obtain ⟨h1, h2⟩ := h
    subst h1 h2
    refine ⟨min n cs, Nat.min_le_right _ _, rfl, rfl, by simp [hs], rfl, by simp [List.length_take], ?_⟩
    intro hff hcs
    obtain ⟨n', hn', hn1⟩ := hff (.data n) (by simp [hs])
    cases hn'
    omega
  · simp at h
  · simp at h

theorem read_err {s s' : Src} {cs : Nat} (h : s.read cs = (.err, s')) :
    ∃ sc, s.script = .errOther :: sc ∧ s'.script = sc ∧ s'.inp = s.inp ∧ s'.nreads = s.nreads + 1 ∧ s'.pos = s.pos := by
  unfold Src.read at h
  split at h
  · simp at h
  · simp at h
  · rename_i sc hs
    simp only [Prod.mk.injEq, true_and] at h
    subst h
    exact ⟨sc, hs, rfl, rfl, rfl, rfl⟩
  · simp at h

theorem read_int {s s' : Src} {cs : Nat} (h : s.read cs = (.interrupted, s')) :
    ∃ sc, s.script = .errInterrupted :: sc ∧ s'.script = sc ∧ s'.inp = s.inp ∧ s'.nreads = s.nreads + 1 ∧ s'.pos = s.pos := by
  unfold Src.read at h
  split at h
  · simp at h
  · simp at h
  · simp at h
  · rename_i sc hs
    simp only [Prod.mk.injEq, true_and] at h
    subst h
    exact ⟨sc, hs, rfl, rfl, rfl, rfl⟩

/-- after a non-empty read the measure `inp.length + script.length` has dropped -/
theorem read_got_measure {s s' : Src} {cs : Nat} {r : Bytes} (h : s.read cs = (.got r, s')) (hr : r.length ≠ 0) :
    s'.inp.length + s'.script.length + 1 ≤ s.inp.length + s.script.length := by
  obtain ⟨j, _, hrj, hi, hsc, _⟩ := read_got h
  rw [hi, hsc, List.length_drop, List.length_tail]
  rw [hrj, List.length_take] at hr
  omega

theorem read_got_faultFree {s s' : Src} {cs : Nat} {r : Bytes} (h : s.read cs = (.got r, s')) (hff : Src.faultFree s) :
    Src.faultFree s' := by
  obtain ⟨j, _, _, _, hsc, _⟩ := read_got h
  intro e he
  rw [hsc] at he
  exact hff e (List.mem_of_mem_tail he)

theorem faultFree_read (s : Src) (cs : Nat) (hff : Src.faultFree s) : ∃ r s', s.read cs = (.got r, s') := by
  cases h : s.read cs with
  | mk rr s' =>
    cases rr with
    | got r => exact ⟨r, s', rfl⟩
    | err =>
      obtain ⟨sc, hs, _⟩ := read_err h
      obtain ⟨n, hn, _⟩ := hff .errOther (by simp [hs])
      cases hn
    | interrupted =>
      obtain ⟨sc, hs, _⟩ := read_int h
      obtain ⟨n, hn, _⟩ := hff .errInterrupted (by simp [hs])
      cases hn

/-! ### the read schedule of a source -/

/-- The results the source hands to successive `read cs` calls when its error events are skipped, up to and
    including the first empty result. -/
def Src.readsOf (cs : Nat) : Nat → Src → List Bytes
  | 0, _ => []
  | fuel+1, s =>
    match s.read cs with
    | (.got r, s') => if r.length = 0 then [r] else r :: Src.readsOf cs fuel s'
    | (.err, s') => Src.readsOf cs fuel s'
    | (.interrupted, s') => Src.readsOf cs fuel s'

/-- enough fuel for `readsOf`: each step consumes a script entry or a byte, plus the final empty read -/
def Src.rfuel (s : Src) : Nat := s.inp.length + s.script.length + 1

/-- the read schedule of `s` for buffer size `cs` -/
def Src.reads (cs : Nat) (s : Src) : List Bytes := Src.readsOf cs (Src.rfuel s) s

theorem readsOf_wf (cs : Nat) : ∀ (f : Nat) (s : Src), wellFormedReads (Src.readsOf cs f s) := by
  intro f
  induction f with
  | zero => intro s; exact trivial
  | succ f ih =>
    intro s
    unfold Src.readsOf
    split
    · rename_i r s' _
      split
      · rename_i hr; exact ⟨fun _ => rfl, fun h => absurd hr h⟩
      · rename_i hr; exact ⟨fun h => absurd h hr, fun _ => ih s'⟩
    · exact ih _
    · exact ih _

theorem readsOf_le (cs : Nat) : ∀ (f : Nat) (s : Src), ∀ r ∈ Src.readsOf cs f s, r.length ≤ cs := by
  intro f
  induction f with
  | zero => intro s r hr; simp [Src.readsOf] at hr
  | succ f ih =>
    intro s r hr
    unfold Src.readsOf at hr
    split at hr
    · rename_i r0 s' hread
      obtain ⟨j, hj, hrj, _⟩ := read_got hread
      have h0 : r0.length ≤ cs := by rw [hrj, List.length_take]; omega
      split at hr
      · simp only [List.mem_singleton] at hr; subst hr; exact h0
      · simp only [List.mem_cons] at hr
        rcases hr with h | h
        · subst h; exact h0
        · exact ih s' r h
    · exact ih _ r hr
    · exact ih _ r hr

/-- for a fault-free source the schedule is a partition of the input -/
theorem readsOf_flatten (cs : Nat) (hcs : 0 < cs) : ∀ (f : Nat) (s : Src), Src.faultFree s →
    s.inp.length + s.script.length + 1 ≤ f → (Src.readsOf cs f s).flatten = s.inp := by
  intro f
  induction f with
  | zero => intro s _ h; omega
  | succ f ih =>
    intro s hff hf
    obtain ⟨r, s', hread⟩ := faultFree_read s cs hff
    obtain ⟨j, hj, hrj, hi, hsc, _, _, hpos⟩ := read_got hread
    have hj0 := hpos hff hcs
    unfold Src.readsOf
    rw [hread]
    simp only
    split
    · rename_i hr
      rw [hrj, List.length_take] at hr
      have : s.inp.length = 0 := by omega
      rw [hrj, List.eq_nil_of_length_eq_zero this]; simp
    · rename_i hr
      have hm := read_got_measure hread hr
      rw [List.flatten_cons, ih s' (read_got_faultFree hread hff) (by omega), hrj, hi, List.take_append_drop]

/-- fuel beyond `rfuel` does not change the schedule -/
theorem readsOf_fuel (cs : Nat) : ∀ (f g : Nat) (s : Src), s.inp.length + s.script.length + 1 ≤ f →
    s.inp.length + s.script.length + 1 ≤ g → Src.readsOf cs f s = Src.readsOf cs g s := by
  intro f
  induction f with
  | zero => intro g s h; omega
  | succ f ih =>
    intro g s hf hg
    obtain ⟨g, rfl⟩ : ∃ g', g = g' + 1 := ⟨g - 1, by omega⟩
    unfold Src.readsOf
    cases hread : s.read cs with
    | mk rr s' =>
      cases rr with
      | got r =>
        simp only
        split
        · rfl
        · rename_i hr
          have hm := read_got_measure hread hr
          rw [ih g s' (by omega) (by omega)]
      | err =>
        obtain ⟨sc, hs, hsc, hi, _⟩ := read_err hread
        simp only
        exact ih g s' (by rw [hi, hsc]; rw [hs] at hf; simp at hf; omega) (by rw [hi, hsc]; rw [hs] at hg; simp at hg; omega)
      | interrupted =>
        obtain ⟨sc, hs, hsc, hi, _⟩ := read_int hread
        simp only
        exact ih g s' (by rw [hi, hsc]; rw [hs] at hf; simp at hf; omega) (by rw [hi, hsc]; rw [hs] at hg; simp at hg; omega)

end Kestrel.EncIO
