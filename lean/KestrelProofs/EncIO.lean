/-
  Encrypt side: refinement between the pure look-ahead loop (`encLoop` over the list of read results) and the
  I/O-level loop (`encLoopIO` over a scripted source and sink), and what follows from it
  (prefix property for every script, error classification, nonce sequence, read/write interleaving).
-/
import KestrelModel.File
import KestrelProofs.Chunks
import KestrelProofs.File
import KestrelProofs.IOBasics
namespace Kestrel.EncIO
open Kestrel

/-! ### script predicates

  `Src.faultFree`, `Snk.faultFree`, `Snk.benign` are the ones of `KestrelProofs/IOBasics.lean`
  (source: script all `data n`, `1 ≤ n`; sink: all `accept n`, `1 ≤ n` — benign: or `errInterrupted` —, flushes all `ok`). -/

/-- the script contains an error event (hard or `Interrupted`) -/
def Src.hasErr (s : Src) : Prop := ∃ e ∈ s.script, e = RdEv.errOther ∨ e = RdEv.errInterrupted

def WsBenign (ws : List WrEv) : Prop := ∀ e ∈ ws, e = WrEv.errInterrupted ∨ ∃ n, e = WrEv.accept n ∧ 1 ≤ n
def FsOk (fs : List FlEv) : Prop := ∀ f ∈ fs, f = FlEv.ok

theorem benign_ws {k : Snk} (h : Snk.benign k) : WsBenign k.ws := fun e he => (h.1 e he).symm
theorem benign_fs {k : Snk} (h : Snk.benign k) : FsOk k.fs := h.2

theorem Src.faultFree_iff_conforming (s : Src) : Src.faultFree s ↔ ∀ e ∈ s.script, e.conforming = true := by
  constructor
  · intro h e he
    obtain ⟨n, rfl, hn⟩ := h e he
    simpa [RdEv.conforming] using hn
  · intro h e he
    have := h e he
    cases e with
    | data n => exact ⟨n, rfl, by simpa [RdEv.conforming] using this⟩
    | errOther => simp [RdEv.conforming] at this
    | errInterrupted => simp [RdEv.conforming] at this

theorem faultFree_not_hasErr {s : Src} (h : Src.faultFree s) : ¬ Src.hasErr s := by
  rintro ⟨e, he, h1 | h1⟩ <;> obtain ⟨n, hn, _⟩ := h e he <;> rw [h1] at hn <;> cases hn

/-! ### one `read()` -/

theorem read_got {s s' : Src} {cs : Nat} {r : Bytes} (h : s.read cs = (.got r, s')) :
    ∃ j, j ≤ cs ∧ r = s.inp.take j ∧ s'.inp = s.inp.drop j ∧ s'.script = s.script.tail ∧
      s'.nreads = s.nreads + 1 ∧ s'.pos = s.pos + r.length ∧ (Src.faultFree s → 0 < cs → 0 < j) := by
  unfold Src.read at h
  split at h
  · rename_i hs
    simp only [Prod.mk.injEq, RdRes.got.injEq] at h
    obtain ⟨h1, h2⟩ := h
    subst h1 h2
    refine ⟨cs, Nat.le_refl _, rfl, rfl, by simp [hs], rfl, by simp [List.length_take], fun _ h => h⟩
  · rename_i n sc hs
    simp only [Prod.mk.injEq, RdRes.got.injEq] at h
    obtain ⟨h1, h2⟩ := h
    subst h1 h2
    refine ⟨min n cs, Nat.min_le_right _ _, rfl, rfl, by simp [hs], rfl, by simp [List.length_take], ?_⟩
    intro hff hcs
    obtain ⟨n', hn', hn1⟩ := hff (.data n) (by simp [hs])
    cases hn'
    omega
  · simp at h
  · simp at h

theorem read_err {s s' : Src} {cs : Nat} (h : s.read cs = (.err, s')) :
    ∃ sc, s.script = .errOther :: sc ∧ s'.script = sc ∧ s'.inp = s.inp ∧ s'.nreads = s.nreads + 1 ∧ s'.pos = s.pos := by
  unfold Src.read at h
  split at h
  · simp at h
  · simp at h
  · rename_i sc hs
    simp only [Prod.mk.injEq, true_and] at h
    subst h
    exact ⟨sc, hs, rfl, rfl, rfl, rfl⟩
  · simp at h

theorem read_int {s s' : Src} {cs : Nat} (h : s.read cs = (.interrupted, s')) :
    ∃ sc, s.script = .errInterrupted :: sc ∧ s'.script = sc ∧ s'.inp = s.inp ∧ s'.nreads = s.nreads + 1 ∧ s'.pos = s.pos := by
  unfold Src.read at h
  split at h
  · simp at h
  · simp at h
  · simp at h
  · rename_i sc hs
    simp only [Prod.mk.injEq, true_and] at h
    subst h
    exact ⟨sc, hs, rfl, rfl, rfl, rfl⟩

/-- after a non-empty read the measure `inp.length + script.length` has dropped -/
theorem read_got_measure {s s' : Src} {cs : Nat} {r : Bytes} (h : s.read cs = (.got r, s')) (hr : r.length ≠ 0) :
    s'.inp.length + s'.script.length + 1 ≤ s.inp.length + s.script.length := by
  obtain ⟨j, _, hrj, hi, hsc, _⟩ := read_got h
  rw [hi, hsc, List.length_drop, List.length_tail]
  rw [hrj, List.length_take] at hr
  omega

theorem read_got_faultFree {s s' : Src} {cs : Nat} {r : Bytes} (h : s.read cs = (.got r, s')) (hff : Src.faultFree s) :
    Src.faultFree s' := by
  obtain ⟨j, _, _, _, hsc, _⟩ := read_got h
  intro e he
  rw [hsc] at he
  exact hff e (List.mem_of_mem_tail he)

theorem faultFree_read (s : Src) (cs : Nat) (hff : Src.faultFree s) : ∃ r s', s.read cs = (.got r, s') := by
  cases h : s.read cs with
  | mk rr s' =>
    cases rr with
    | got r => exact ⟨r, s', rfl⟩
    | err =>
      obtain ⟨sc, hs, _⟩ := read_err h
      obtain ⟨n, hn, _⟩ := hff .errOther (by simp [hs])
      cases hn
    | interrupted =>
      obtain ⟨sc, hs, _⟩ := read_int h
      obtain ⟨n, hn, _⟩ := hff .errInterrupted (by simp [hs])
      cases hn

/-! ### the read schedule of a source -/

/-- The results the source hands to successive `read cs` calls when its error events are skipped, up to and
    including the first empty result. -/
def Src.readsOf (cs : Nat) : Nat → Src → List Bytes
  | 0, _ => []
  | fuel+1, s =>
    match s.read cs with
    | (.got r, s') => if r.length = 0 then [r] else r :: Src.readsOf cs fuel s'
    | (.err, s') => Src.readsOf cs fuel s'
    | (.interrupted, s') => Src.readsOf cs fuel s'

/-- enough fuel for `readsOf`: each step consumes a script entry or a byte, plus the final empty read -/
def Src.rfuel (s : Src) : Nat := s.inp.length + s.script.length + 1

/-- the read schedule of `s` for buffer size `cs` -/
def Src.reads (cs : Nat) (s : Src) : List Bytes := Src.readsOf cs (Src.rfuel s) s

theorem readsOf_wf (cs : Nat) : ∀ (f : Nat) (s : Src), wellFormedReads (Src.readsOf cs f s) := by
  intro f
  induction f with
  | zero => intro s; exact trivial
  | succ f ih =>
    intro s
    unfold Src.readsOf
    split
    · rename_i r s' _
      split
      · rename_i hr; exact ⟨fun _ => rfl, fun h => absurd hr h⟩
      · rename_i hr; exact ⟨fun h => absurd h hr, fun _ => ih s'⟩
    · exact ih _
    · exact ih _

theorem readsOf_le (cs : Nat) : ∀ (f : Nat) (s : Src), ∀ r ∈ Src.readsOf cs f s, r.length ≤ cs := by
  intro f
  induction f with
  | zero => intro s r hr; simp [Src.readsOf] at hr
  | succ f ih =>
    intro s r hr
    unfold Src.readsOf at hr
    split at hr
    · rename_i r0 s' hread
      obtain ⟨j, hj, hrj, _⟩ := read_got hread
      have h0 : r0.length ≤ cs := by rw [hrj, List.length_take]; omega
      split at hr
      · simp only [List.mem_singleton] at hr; subst hr; exact h0
      · simp only [List.mem_cons] at hr
        rcases hr with h | h
        · subst h; exact h0
        · exact ih s' r h
    · exact ih _ r hr
    · exact ih _ r hr

/-- for a fault-free source the schedule is a partition of the input -/
theorem readsOf_flatten (cs : Nat) (hcs : 0 < cs) : ∀ (f : Nat) (s : Src), Src.faultFree s →
    s.inp.length + s.script.length + 1 ≤ f → (Src.readsOf cs f s).flatten = s.inp := by
  intro f
  induction f with
  | zero => intro s _ h; omega
  | succ f ih =>
    intro s hff hf
    obtain ⟨r, s', hread⟩ := faultFree_read s cs hff
    obtain ⟨j, hj, hrj, hi, hsc, _, _, hpos⟩ := read_got hread
    have hj0 := hpos hff hcs
    unfold Src.readsOf
    rw [hread]
    simp only
    split
    · rename_i hr
      rw [hrj, List.length_take] at hr
      have : s.inp.length = 0 := by omega
      rw [hrj, List.eq_nil_of_length_eq_zero this]; simp
    · rename_i hr
      have hm := read_got_measure hread hr
      rw [List.flatten_cons, ih s' (read_got_faultFree hread hff) (by omega), hrj, hi, List.take_append_drop]

/-- fuel beyond `rfuel` does not change the schedule -/
theorem readsOf_fuel (cs : Nat) : ∀ (f g : Nat) (s : Src), s.inp.length + s.script.length + 1 ≤ f →
    s.inp.length + s.script.length + 1 ≤ g → Src.readsOf cs f s = Src.readsOf cs g s := by
  intro f
  induction f with
  | zero => intro g s h; omega
  | succ f ih =>
    intro g s hf hg
    obtain ⟨g, rfl⟩ : ∃ g', g = g' + 1 := ⟨g - 1, by omega⟩
    unfold Src.readsOf
    cases hread : s.read cs with
    | mk rr s' =>
      cases rr with
      | got r =>
        simp only
        split
        · rfl
        · rename_i hr
          have hm := read_got_measure hread hr
          rw [ih g s' (by omega) (by omega)]
      | err =>
        obtain ⟨sc, hs, hsc, hi, _⟩ := read_err hread
        simp only
        exact ih g s' (by rw [hi, hsc]; rw [hs] at hf; simp at hf; omega) (by rw [hi, hsc]; rw [hs] at hg; simp at hg; omega)
      | interrupted =>
        obtain ⟨sc, hs, hsc, hi, _⟩ := read_int hread
        simp only
        exact ih g s' (by rw [hi, hsc]; rw [hs] at hf; simp at hf; omega) (by rw [hi, hsc]; rw [hs] at hg; simp at hg; omega)

/-! ### the sink: one operation, `write_all`, `flush`, one record -/

/-- What any sequence of sink operations issued at source state `at_` does: `p` is appended to the output,
    prefixes of the two scripts are consumed, and the new log entries are stamped `at_` and account for `p`. -/
structure Step (at_ : Nat × Nat) (k k' : Snk) (p : Bytes) : Prop where
  out : k'.out = k.out ++ p
  ws : ∃ u, k.ws = u ++ k'.ws
  fs : ∃ u, k.fs = u ++ k'.fs
  log : ∃ new, k'.log = new ++ k.log ∧ (∀ e ∈ new, e.srcPos = at_.1 ∧ e.srcReads = at_.2) ∧
          (new.map (·.n)).sum = p.length
  flushes : k.flushes ≤ k'.flushes

theorem Step.refl (at_ : Nat × Nat) (k : Snk) : Step at_ k k [] :=
  ⟨by simp, ⟨[], rfl⟩, ⟨[], rfl⟩, ⟨[], rfl, by simp, rfl⟩, Nat.le_refl _⟩

theorem Step.trans {at_ : Nat × Nat} {k k' k'' : Snk} {p q : Bytes} (h1 : Step at_ k k' p) (h2 : Step at_ k' k'' q) :
    Step at_ k k'' (p ++ q) := by
  obtain ⟨u1, hu1⟩ := h1.ws
  obtain ⟨u2, hu2⟩ := h2.ws
  obtain ⟨v1, hv1⟩ := h1.fs
  obtain ⟨v2, hv2⟩ := h2.fs
  obtain ⟨n1, hn1, ha1, hs1⟩ := h1.log
  obtain ⟨n2, hn2, ha2, hs2⟩ := h2.log
  refine ⟨by rw [h2.out, h1.out, List.append_assoc], ⟨u1 ++ u2, by rw [hu1, hu2, List.append_assoc]⟩,
    ⟨v1 ++ v2, by rw [hv1, hv2, List.append_assoc]⟩, ⟨n2 ++ n1, by rw [hn2, hn1, List.append_assoc], ?_, ?_⟩,
    Nat.le_trans h1.flushes h2.flushes⟩
  · intro e he
    rcases List.mem_append.mp he with h | h
    · exact ha2 e h
    · exact ha1 e h
  · rw [List.map_append, List.sum_append, hs1, hs2, List.length_append]; omega

theorem Step.benign {at_ : Nat × Nat} {k k' : Snk} {p : Bytes} (h : Step at_ k k' p) (hb : Snk.benign k) : Snk.benign k' := by
  obtain ⟨u, hu⟩ := h.ws
  obtain ⟨v, hv⟩ := h.fs
  exact ⟨fun e he => hb.1 e (by rw [hu]; exact List.mem_append_right _ he),
         fun e he => hb.2 e (by rw [hv]; exact List.mem_append_right _ he)⟩

theorem Step.faultFree {at_ : Nat × Nat} {k k' : Snk} {p : Bytes} (h : Step at_ k k' p) (hb : Snk.faultFree k) :
    Snk.faultFree k' := by
  obtain ⟨u, hu⟩ := h.ws
  obtain ⟨v, hv⟩ := h.fs
  exact ⟨fun e he => hb.1 e (by rw [hu]; exact List.mem_append_right _ he),
         fun e he => hb.2 e (by rw [hv]; exact List.mem_append_right _ he)⟩

theorem write_wrote {at_ : Nat × Nat} {k k' : Snk} {b : Bytes} {n : Nat} (h : k.write at_ b = (.wrote n, k')) :
    n ≤ b.length ∧ Step at_ k k' (b.take n) := by
  unfold Snk.write at h
  split at h
  · rename_i hws
    simp only [Prod.mk.injEq, WrRes.wrote.injEq] at h
    obtain ⟨h1, h2⟩ := h
    subst h1 h2
    refine ⟨Nat.le_refl _, ⟨by simp, ⟨[], rfl⟩, ⟨[], rfl⟩, ⟨[⟨at_.1, at_.2, b.length⟩], rfl, by simp, by simp⟩, Nat.le_refl _⟩⟩
  · rename_i m ws hws
    simp only [Prod.mk.injEq, WrRes.wrote.injEq] at h
    obtain ⟨h1, h2⟩ := h
    subst h1 h2
    refine ⟨Nat.min_le_right _ _, ⟨rfl, ⟨[.accept m], by simp [hws]⟩, ⟨[], rfl⟩,
      ⟨[⟨at_.1, at_.2, min m b.length⟩], rfl, by simp, by simp [List.length_take]⟩, Nat.le_refl _⟩⟩
  · simp at h
  · simp at h

theorem write_err {at_ : Nat × Nat} {k k' : Snk} {b : Bytes} (h : k.write at_ b = (.err, k')) :
    Step at_ k k' [] ∧ WrEv.errOther ∈ k.ws := by
  unfold Snk.write at h
  split at h
  · simp at h
  · simp at h
  · rename_i ws hws
    simp only [Prod.mk.injEq, true_and] at h
    subst h
    exact ⟨⟨by simp, ⟨[.errOther], by simp [hws]⟩, ⟨[], rfl⟩, ⟨[], rfl, by simp, rfl⟩, Nat.le_refl _⟩, by simp [hws]⟩
  · simp at h

theorem write_int {at_ : Nat × Nat} {k k' : Snk} {b : Bytes} (h : k.write at_ b = (.interrupted, k')) :
    Step at_ k k' [] ∧ k.ws = .errInterrupted :: k'.ws := by
  unfold Snk.write at h
  split at h
  · simp at h
  · simp at h
  · simp at h
  · rename_i ws hws
    simp only [Prod.mk.injEq, true_and] at h
    subst h
    exact ⟨⟨by simp, ⟨[.errInterrupted], by simp [hws]⟩, ⟨[], rfl⟩, ⟨[], rfl, by simp, rfl⟩, Nat.le_refl _⟩, hws⟩

theorem writeAll_nil (at_ : Nat × Nat) (fuel : Nat) (k : Snk) : Snk.writeAll at_ fuel k [] = (true, k) := by
  cases fuel <;> simp [Snk.writeAll]

/-- **`write_all`, every script**: what reaches the output is a prefix of the buffer, all of it on success. -/
theorem writeAll_step (at_ : Nat × Nat) : ∀ (fuel : Nat) (k : Snk) (b : Bytes),
    ∃ p, Step at_ k (Snk.writeAll at_ fuel k b).2 p ∧ p <+: b ∧ ((Snk.writeAll at_ fuel k b).1 = true → p = b) := by
  intro fuel
  induction fuel with
  | zero =>
    intro k b
    refine ⟨[], Step.refl _ _, List.nil_prefix, ?_⟩
    simp only [Snk.writeAll, List.isEmpty_iff]
    intro h; exact h.symm
  | succ fuel ih =>
    intro k b
    unfold Snk.writeAll
    split
    · rename_i hb
      refine ⟨[], Step.refl _ _, List.nil_prefix, fun _ => ?_⟩
      simpa using hb.symm
    · split
      · rename_i k' hw
        exact ⟨[], (write_err hw).1, List.nil_prefix, by simp⟩
      · rename_i k' hw
        obtain ⟨p, hs, hp, hok⟩ := ih k' b
        exact ⟨p, by simpa using (write_int hw).1.trans hs, hp, hok⟩
      · rename_i n k' hw
        obtain ⟨hn, hst⟩ := write_wrote hw
        split
        · exact ⟨b.take n, hst, List.take_prefix _ _, by simp⟩
        · obtain ⟨p, hs, hp, hok⟩ := ih k' (b.drop n)
          refine ⟨b.take n ++ p, hst.trans hs, ?_, ?_⟩
          · obtain ⟨t, ht⟩ := hp
            exact ⟨t, by rw [List.append_assoc, ht, List.take_append_drop]⟩
          · intro h
            rw [hok h, List.take_append_drop]

/-- **`write_all`, benign script**: succeeds. -/
theorem writeAll_benign (at_ : Nat × Nat) : ∀ (fuel : Nat) (k : Snk) (b : Bytes), WsBenign k.ws →
    k.ws.length + 1 ≤ fuel → (Snk.writeAll at_ fuel k b).1 = true := by
  intro fuel
  induction fuel with
  | zero => intro k b _ h; omega
  | succ fuel ih =>
    intro k b hb hf
    unfold Snk.writeAll
    split
    · rfl
    · rename_i hne
      have hlen : 0 < b.length := by
        cases b with
        | nil => simp at hne
        | cons _ _ => simp
      split
      · rename_i k' hw
        rcases hb _ (write_err hw).2 with h | ⟨n, h, _⟩ <;> cases h
      · rename_i k' hw
        have hws := (write_int hw).2
        refine ih k' b (fun e he => hb e (by rw [hws]; exact List.mem_cons_of_mem _ he)) ?_
        rw [hws] at hf; simp at hf; omega
      · rename_i n k' hw
        unfold Snk.write at hw
        split at hw
        · rename_i hws
          simp only [Prod.mk.injEq, WrRes.wrote.injEq] at hw
          obtain ⟨h1, h2⟩ := hw
          subst h1 h2
          rw [if_neg (by omega), List.drop_length, writeAll_nil]
        · rename_i m ws hws
          simp only [Prod.mk.injEq, WrRes.wrote.injEq] at hw
          obtain ⟨h1, h2⟩ := hw
          subst h1 h2
          have hm : 1 ≤ m := by
            rcases hb (.accept m) (by simp [hws]) with h | ⟨n, h, hn⟩
            · cases h
            · cases h; exact hn
          rw [if_neg (by omega)]
          refine ih _ _ (fun e he => hb e (by rw [hws]; exact List.mem_cons_of_mem _ he)) ?_
          rw [hws] at hf; simp at hf ⊢; omega
        · simp at hw
        · simp at hw

theorem flush_step (at_ : Nat × Nat) (k : Snk) : Step at_ k k.flush.2 [] := by
  unfold Snk.flush
  split
  · exact ⟨by simp, ⟨[], rfl⟩, ⟨[], by simp⟩, ⟨[], rfl, by simp, rfl⟩, by simp⟩
  · rename_i fs hfs
    exact ⟨by simp, ⟨[], rfl⟩, ⟨[.ok], by simp [hfs]⟩, ⟨[], rfl, by simp, rfl⟩, by simp⟩
  · rename_i e fs _ hfs
    exact ⟨by simp, ⟨[], rfl⟩, ⟨[e], by simp [hfs]⟩, ⟨[], rfl, by simp, rfl⟩, by simp⟩

theorem flush_ok (k : Snk) (h : FsOk k.fs) : k.flush.1 = true := by
  unfold Snk.flush
  split
  · rfl
  · rfl
  · rename_i e fs hne hfs
    have := h e (by simp [hfs])
    subst this
    exact absurd rfl hne

theorem flush_false_not_ok (k : Snk) (h : k.flush.1 = false) : ¬ FsOk k.fs := by
  intro hok; rw [flush_ok k hok] at h; cases h

/-- **one record, every script**: header ‖ body reaches the output up to a prefix, all of it on success. -/
theorem writeRecord_step (at_ : Nat × Nat) (k : Snk) (hdr body : Bytes) :
    ∃ p, Step at_ k (writeRecord k at_ hdr body).2 p ∧ p <+: hdr ++ body ∧
      ((writeRecord k at_ hdr body).1 = true → p = hdr ++ body) := by
  obtain ⟨p1, hs1, hp1, hok1⟩ := writeAll_step at_ (k.wfuel hdr) k hdr
  unfold writeRecord
  split
  · rename_i k1 h1
    rw [h1] at hs1
    exact ⟨p1, hs1, List.IsPrefix.trans hp1 (List.prefix_append _ _), by simp⟩
  · rename_i k1 h1
    rw [h1] at hs1 hok1
    have hp1e : p1 = hdr := hok1 rfl
    subst hp1e
    obtain ⟨p2, hs2, hp2, hok2⟩ := writeAll_step at_ (k1.wfuel body) k1 body
    split
    · rename_i k2 h2
      rw [h2] at hs2
      exact ⟨p1 ++ p2, hs1.trans hs2, (List.prefix_append_right_inj _).mpr hp2, by simp⟩
    · rename_i k2 h2
      rw [h2] at hs2 hok2
      have hp2e : p2 = body := hok2 rfl
      subst hp2e
      refine ⟨p1 ++ p2, ?_, List.prefix_refl _, fun _ => rfl⟩
      simpa using (hs1.trans hs2).trans (flush_step at_ k2)

/-- **one record, benign sink**: succeeds. -/
theorem writeRecord_benign (at_ : Nat × Nat) (k : Snk) (hdr body : Bytes) (hb : Snk.benign k) :
    (writeRecord k at_ hdr body).1 = true := by
  have h1 := writeAll_benign at_ (k.wfuel hdr) k hdr (benign_ws hb) (by simp [Snk.wfuel])
  obtain ⟨p1, hs1, _, _⟩ := writeAll_step at_ (k.wfuel hdr) k hdr
  unfold writeRecord
  split
  · rename_i k1 e1; rw [e1] at h1; cases h1
  · rename_i k1 e1
    rw [e1] at hs1
    have hb1 := hs1.benign hb
    have h2 := writeAll_benign at_ (k1.wfuel body) k1 body (benign_ws hb1) (by simp [Snk.wfuel])
    obtain ⟨p2, hs2, _, _⟩ := writeAll_step at_ (k1.wfuel body) k1 body
    split
    · rename_i k2 e2; rw [e2] at h2; cases h2
    · rename_i k2 e2
      rw [e2] at hs2
      exact flush_ok k2 (hs2.benign hb1).2

/-! ### the look-ahead loop: case lemmas for both levels -/

/-- the `write_all; write_all; flush` of record `ctr` as `encLoopIO` issues it (`s'` = source after the read
    that decided the flag) -/
def recW (A : Aead) (key aad : Bytes) (ctr : Nat) (last : Bool) (prev : Bytes) (s' : Src) (k : Snk) : Bool × Snk :=
  writeRecord k (s'.pos, s'.nreads) (be64 ctr ++ be32 (if last then 1 else 0) ++ be32 prev.length)
    (A.enc key ctr (aad ++ be32 (if last then 1 else 0) ++ be32 prev.length) prev)

theorem recW_step (A : Aead) (key aad : Bytes) (ctr : Nat) (last : Bool) (prev : Bytes) (s' : Src) (k : Snk) :
    ∃ p, Step (s'.pos, s'.nreads) k (recW A key aad ctr last prev s' k).2 p ∧
      p <+: record A key aad (be64 ctr) ctr last prev ∧
      ((recW A key aad ctr last prev s' k).1 = true → p = record A key aad (be64 ctr) ctr last prev) :=
  writeRecord_step _ k _ _

theorem recW_benign (A : Aead) (key aad : Bytes) (ctr : Nat) (last : Bool) (prev : Bytes) (s' : Src) (k : Snk)
    (hb : Snk.benign k) : (recW A key aad ctr last prev s' k).1 = true :=
  writeRecord_benign _ k _ _ hb

section loop
variable (A : Aead) (key aad : Bytes) (cs : Nat)

theorem encLoopIO_err {fuel ctr : Nat} {prev : Bytes} {done : Bool} {s s' : Src} {k : Snk}
    (h : s.read cs = (.err, s')) : encLoopIO A key aad cs (fuel+1) ctr prev done s k = (.ioRead, s', k) := by
  simp only [encLoopIO, h]

theorem encLoopIO_int {fuel ctr : Nat} {prev : Bytes} {done : Bool} {s s' : Src} {k : Snk}
    (h : s.read cs = (.interrupted, s')) : encLoopIO A key aad cs (fuel+1) ctr prev done s k = (.ioRead, s', k) := by
  simp only [encLoopIO, h]

theorem encLoopIO_unexp {fuel ctr : Nat} {prev r : Bytes} {s s' : Src} {k : Snk}
    (h : s.read cs = (.got r, s')) (hr : r.length ≠ 0) :
    encLoopIO A key aad cs (fuel+1) ctr prev true s k = (.unexpectedData, s', k) := by
  simp [encLoopIO, h, hr]

theorem encLoopIO_last {fuel ctr : Nat} {prev r : Bytes} {done : Bool} {s s' : Src} {k : Snk}
    (h : s.read cs = (.got r, s')) (hr : r.length = 0) :
    encLoopIO A key aad cs (fuel+1) ctr prev done s k =
      (if (recW A key aad ctr true prev s' k).1 then .ok else .ioWrite, s', (recW A key aad ctr true prev s' k).2) := by
  simp only [encLoopIO, h, hr, recW]
  simp only [ne_eq, not_true_eq_false, decide_false, Bool.false_and, Bool.false_eq_true, if_false, beq_self_eq_true,
    Bool.or_true, if_true]
  generalize writeRecord k _ _ _ = w
  obtain ⟨b, k2⟩ := w
  cases b <;> simp

theorem encLoopIO_more {fuel ctr : Nat} {prev r : Bytes} {s s' : Src} {k : Snk}
    (h : s.read cs = (.got r, s')) (hr : r.length ≠ 0) :
    encLoopIO A key aad cs (fuel+1) ctr prev false s k =
      if (recW A key aad ctr false prev s' k).1 then
        encLoopIO A key aad cs fuel (ctr+1) r false s' (recW A key aad ctr false prev s' k).2
      else (.ioWrite, s', (recW A key aad ctr false prev s' k).2) := by
  have hb : (r.length == 0) = false := by simpa using hr
  simp only [encLoopIO, h, recW, hb]
  simp only [Bool.and_false, Bool.false_eq_true, if_false, Bool.or_false]
  generalize writeRecord k _ _ _ = w
  obtain ⟨b, k2⟩ := w
  cases b <;> simp

theorem encLoop_last {ctr : Nat} {prev r : Bytes} {done : Bool} {rs : List Bytes} (hr : r.length = 0) :
    encLoop A key aad ctr prev done (r :: rs) = (record A key aad (be64 ctr) ctr true prev, .ok) := by
  simp [encLoop, hr]

theorem encLoop_unexp {ctr : Nat} {prev r : Bytes} {rs : List Bytes} (hr : r.length ≠ 0) :
    encLoop A key aad ctr prev true (r :: rs) = ([], .unexpectedData) := by
  simp [encLoop, hr]

theorem encLoop_more {ctr : Nat} {prev r : Bytes} {rs : List Bytes} (hr : r.length ≠ 0) :
    encLoop A key aad ctr prev false (r :: rs) =
      (record A key aad (be64 ctr) ctr false prev ++ (encLoop A key aad (ctr+1) r false rs).1,
       (encLoop A key aad (ctr+1) r false rs).2) := by
  have hb : (r.length == 0) = false := by simpa using hr
  simp [encLoop, hr, hb]

theorem readsOf_got_nil {f : Nat} {s s' : Src} {r : Bytes} (h : s.read cs = (.got r, s')) (hr : r.length = 0) :
    Src.readsOf cs (f+1) s = [r] := by
  simp [Src.readsOf, h, hr]

theorem readsOf_got_cons {f : Nat} {s s' : Src} {r : Bytes} (h : s.read cs = (.got r, s')) (hr : r.length ≠ 0) :
    Src.readsOf cs (f+1) s = r :: Src.readsOf cs f s' := by
  simp [Src.readsOf, h, hr]

/-! ### (c) error classification -/

/-- the chunk loop ends in one of four ways -/
theorem encLoopIO_res : ∀ (fuel ctr : Nat) (prev : Bytes) (done : Bool) (s : Src) (k : Snk),
    (encLoopIO A key aad cs fuel ctr prev done s k).1 = .ok ∨ (encLoopIO A key aad cs fuel ctr prev done s k).1 = .ioRead ∨
    (encLoopIO A key aad cs fuel ctr prev done s k).1 = .ioWrite ∨
    (encLoopIO A key aad cs fuel ctr prev done s k).1 = .unexpectedData := by
  intro fuel
  induction fuel with
  | zero => intro _ _ _ _ _; simp [encLoopIO]
  | succ fuel ih =>
    intro ctr prev done s k
    cases hread : s.read cs with
    | mk rr s' =>
      cases rr with
      | err => rw [encLoopIO_err A key aad cs hread]; simp
      | interrupted => rw [encLoopIO_int A key aad cs hread]; simp
      | got r =>
        by_cases hr : r.length = 0
        · rw [encLoopIO_last A key aad cs hread hr]
          cases (recW A key aad ctr true prev s' k).1 <;> simp
        · cases done with
          | true => rw [encLoopIO_unexp A key aad cs hread hr]; simp
          | false =>
            rw [encLoopIO_more A key aad cs hread hr]
            cases (recW A key aad ctr false prev s' k).1
            · simp
            · simpa using ih (ctr+1) r false s' _

/-- `IORead` comes from an error event of the source script (never from running out of fuel) -/
theorem encLoopIO_ioRead : ∀ (fuel ctr : Nat) (prev : Bytes) (done : Bool) (s : Src) (k : Snk),
    s.inp.length + s.script.length + 1 ≤ fuel →
    (encLoopIO A key aad cs fuel ctr prev done s k).1 = .ioRead → Src.hasErr s := by
  intro fuel
  induction fuel with
  | zero => intro _ _ _ s _ h; omega
  | succ fuel ih =>
    intro ctr prev done s k hf hres
    cases hread : s.read cs with
    | mk rr s' =>
      cases rr with
      | err =>
        obtain ⟨sc, hs, _⟩ := read_err hread
        exact ⟨.errOther, by simp [hs], Or.inl rfl⟩
      | interrupted =>
        obtain ⟨sc, hs, _⟩ := read_int hread
        exact ⟨.errInterrupted, by simp [hs], Or.inr rfl⟩
      | got r =>
        by_cases hr : r.length = 0
        · rw [encLoopIO_last A key aad cs hread hr] at hres
          cases h : (recW A key aad ctr true prev s' k).1 <;> simp [h] at hres
        · cases done with
          | true => rw [encLoopIO_unexp A key aad cs hread hr] at hres; simp at hres
          | false =>
            rw [encLoopIO_more A key aad cs hread hr] at hres
            cases h : (recW A key aad ctr false prev s' k).1
            · simp [h] at hres
            · simp only [h, if_true] at hres
              have hm := read_got_measure hread hr
              obtain ⟨e, he, hee⟩ := ih (ctr+1) r false s' _ (by omega) hres
              obtain ⟨j, _, _, _, hsc, _⟩ := read_got hread
              rw [hsc] at he
              exact ⟨e, List.mem_of_mem_tail he, hee⟩

/-- `IOWrite` needs a sink event that is not benign -/
theorem encLoopIO_ioWrite : ∀ (fuel ctr : Nat) (prev : Bytes) (done : Bool) (s : Src) (k : Snk),
    Snk.benign k → (encLoopIO A key aad cs fuel ctr prev done s k).1 ≠ .ioWrite := by
  intro fuel
  induction fuel with
  | zero => intro _ _ _ _ _ _; simp [encLoopIO]
  | succ fuel ih =>
    intro ctr prev done s k hb
    cases hread : s.read cs with
    | mk rr s' =>
      cases rr with
      | err => rw [encLoopIO_err A key aad cs hread]; simp
      | interrupted => rw [encLoopIO_int A key aad cs hread]; simp
      | got r =>
        by_cases hr : r.length = 0
        · rw [encLoopIO_last A key aad cs hread hr, recW_benign A key aad ctr true prev s' k hb]; simp
        · cases done with
          | true => rw [encLoopIO_unexp A key aad cs hread hr]; simp
          | false =>
            rw [encLoopIO_more A key aad cs hread hr, recW_benign A key aad ctr false prev s' k hb]
            simp only [if_true]
            obtain ⟨p, hst, _⟩ := recW_step A key aad ctr false prev s' k
            exact ih (ctr+1) r false s' _ (hst.benign hb)

/-- `UnexpectedData` arises in exactly one way: the look-ahead flag is already set and the next read delivers data;
    nothing is written in that call -/
theorem encLoopIO_unexpected : ∀ (fuel ctr : Nat) (prev : Bytes) (done : Bool) (s : Src) (k : Snk),
    (encLoopIO A key aad cs fuel ctr prev done s k).1 = .unexpectedData →
    done = true ∧ ∃ r s', s.read cs = (.got r, s') ∧ r.length ≠ 0 ∧
      encLoopIO A key aad cs fuel ctr prev done s k = (.unexpectedData, s', k) := by
  intro fuel
  induction fuel with
  | zero => intro _ _ _ _ _ h; simp [encLoopIO] at h
  | succ fuel ih =>
    intro ctr prev done s k hres
    cases hread : s.read cs with
    | mk rr s' =>
      cases rr with
      | err => rw [encLoopIO_err A key aad cs hread] at hres; simp at hres
      | interrupted => rw [encLoopIO_int A key aad cs hread] at hres; simp at hres
      | got r =>
        by_cases hr : r.length = 0
        · rw [encLoopIO_last A key aad cs hread hr] at hres
          cases h : (recW A key aad ctr true prev s' k).1 <;> simp [h] at hres
        · cases done with
          | true => exact ⟨rfl, r, s', rfl, hr, encLoopIO_unexp A key aad cs hread hr⟩
          | false =>
            rw [encLoopIO_more A key aad cs hread hr] at hres
            cases h : (recW A key aad ctr false prev s' k).1
            · simp [h] at hres
            · simp only [h, if_true] at hres
              have := (ih (ctr+1) r false s' _ hres).1
              cases this

/-! ### (b) prefix property, every script -/

/-- What the I/O loop appends to the sink is a prefix of what the pure loop emits on the source's read schedule,
    and all of it when the loop reports success. No hypothesis on the scripts. -/
theorem encLoopIO_prefix : ∀ (fuel ctr : Nat) (prev : Bytes) (done : Bool) (s : Src) (k : Snk) (f2 : Nat),
    s.inp.length + s.script.length + 1 ≤ f2 →
    ∃ p, (encLoopIO A key aad cs fuel ctr prev done s k).2.2.out = k.out ++ p ∧
      p <+: (encLoop A key aad ctr prev done (Src.readsOf cs f2 s)).1 ∧
      ((encLoopIO A key aad cs fuel ctr prev done s k).1 = .ok →
        p = (encLoop A key aad ctr prev done (Src.readsOf cs f2 s)).1) := by
  intro fuel
  induction fuel with
  | zero => intro _ _ _ _ k _ _; exact ⟨[], by simp [encLoopIO], List.nil_prefix, by simp [encLoopIO]⟩
  | succ fuel ih =>
    intro ctr prev done s k f2 hf2
    obtain ⟨f2, rfl⟩ : ∃ g, f2 = g + 1 := ⟨f2 - 1, by omega⟩
    cases hread : s.read cs with
    | mk rr s' =>
      cases rr with
      | err => rw [encLoopIO_err A key aad cs hread]; exact ⟨[], by simp, List.nil_prefix, by simp⟩
      | interrupted => rw [encLoopIO_int A key aad cs hread]; exact ⟨[], by simp, List.nil_prefix, by simp⟩
      | got r =>
        by_cases hr : r.length = 0
        · rw [encLoopIO_last A key aad cs hread hr, readsOf_got_nil cs hread hr, encLoop_last A key aad hr]
          obtain ⟨p, hst, hp, hok⟩ := recW_step A key aad ctr true prev s' k
          refine ⟨p, hst.out, hp, ?_⟩
          cases h : (recW A key aad ctr true prev s' k).1
          · simp
          · intro _; exact hok h
        · rw [readsOf_got_cons cs hread hr]
          cases done with
          | true =>
            rw [encLoopIO_unexp A key aad cs hread hr]
            exact ⟨[], by simp, List.nil_prefix, by simp⟩
          | false =>
            rw [encLoopIO_more A key aad cs hread hr, encLoop_more A key aad hr]
            obtain ⟨p, hst, hp, hok⟩ := recW_step A key aad ctr false prev s' k
            cases h : (recW A key aad ctr false prev s' k).1
            · simp only [Bool.false_eq_true, if_false]
              exact ⟨p, hst.out, List.IsPrefix.trans hp (List.prefix_append _ _), by simp⟩
            · simp only [if_true]
              have hm := read_got_measure hread hr
              obtain ⟨q, hq1, hq2, hq3⟩ := ih (ctr+1) r false s' (recW A key aad ctr false prev s' k).2 f2 (by omega)
              have hpe := hok h
              refine ⟨p ++ q, by rw [hq1, hst.out, List.append_assoc], ?_, ?_⟩
              · rw [hpe]; exact (List.prefix_append_right_inj _).mpr hq2
              · intro hres; rw [hpe, hq3 hres]

end loop

/-! ### `encrypt_chunks` as a whole -/

section top
variable (A : Aead) (key aad : Bytes) (cs : Nat)

theorem encryptChunksIO_err {s s' : Src} {k : Snk} (h : s.read cs = (.err, s')) :
    encryptChunksIO A key aad cs s k = (.ioRead, s', k) := by
  simp only [encryptChunksIO, h]

theorem encryptChunksIO_int {s s' : Src} {k : Snk} (h : s.read cs = (.interrupted, s')) :
    encryptChunksIO A key aad cs s k = (.ioRead, s', k) := by
  simp only [encryptChunksIO, h]

theorem encryptChunksIO_got {s s' : Src} {k : Snk} {r : Bytes} (h : s.read cs = (.got r, s')) :
    encryptChunksIO A key aad cs s k =
      encLoopIO A key aad cs ((s'.inp.length + s'.script.length + 1) + 1) 0 r (r.length == 0) s' k := by
  simp only [encryptChunksIO, h]

theorem reads_got_nil {s s' : Src} {r : Bytes} (h : s.read cs = (.got r, s')) (hr : r.length = 0) :
    Src.reads cs s = [r] := readsOf_got_nil cs h hr

theorem reads_got_cons {s s' : Src} {r : Bytes} (h : s.read cs = (.got r, s')) (hr : r.length ≠ 0) :
    Src.reads cs s = r :: Src.readsOf cs (s.inp.length + s.script.length) s' := readsOf_got_cons cs h hr

/-- (c) `encrypt_chunks` ends in one of four ways -/
theorem encryptChunksIO_res (s : Src) (k : Snk) :
    (encryptChunksIO A key aad cs s k).1 = .ok ∨ (encryptChunksIO A key aad cs s k).1 = .ioRead ∨
    (encryptChunksIO A key aad cs s k).1 = .ioWrite ∨ (encryptChunksIO A key aad cs s k).1 = .unexpectedData := by
  cases hread : s.read cs with
  | mk rr s' =>
    cases rr with
    | err => rw [encryptChunksIO_err A key aad cs hread]; simp
    | interrupted => rw [encryptChunksIO_int A key aad cs hread]; simp
    | got r => rw [encryptChunksIO_got A key aad cs hread]; exact encLoopIO_res A key aad cs _ _ _ _ _ _

/-- (c) `IORead` ⇒ the source script contains an error or `Interrupted` event -/
theorem encryptChunksIO_ioRead (s : Src) (k : Snk) (h : (encryptChunksIO A key aad cs s k).1 = .ioRead) :
    Src.hasErr s := by
  cases hread : s.read cs with
  | mk rr s' =>
    cases rr with
    | err =>
      obtain ⟨sc, hs, _⟩ := read_err hread
      exact ⟨.errOther, by simp [hs], Or.inl rfl⟩
    | interrupted =>
      obtain ⟨sc, hs, _⟩ := read_int hread
      exact ⟨.errInterrupted, by simp [hs], Or.inr rfl⟩
    | got r =>
      rw [encryptChunksIO_got A key aad cs hread] at h
      obtain ⟨e, he, hee⟩ := encLoopIO_ioRead A key aad cs _ _ _ _ _ _ (by omega) h
      obtain ⟨j, _, _, _, hsc, _⟩ := read_got hread
      rw [hsc] at he
      exact ⟨e, List.mem_of_mem_tail he, hee⟩

/-- (c) `IOWrite` ⇒ the sink scripts are not benign (a hard error, a zero-length accept, or a failing flush) -/
theorem encryptChunksIO_ioWrite (s : Src) (k : Snk) (h : (encryptChunksIO A key aad cs s k).1 = .ioWrite) :
    ¬ Snk.benign k := by
  intro hb
  cases hread : s.read cs with
  | mk rr s' =>
    cases rr with
    | err => rw [encryptChunksIO_err A key aad cs hread] at h; simp at h
    | interrupted => rw [encryptChunksIO_int A key aad cs hread] at h; simp at h
    | got r =>
      rw [encryptChunksIO_got A key aad cs hread] at h
      exact encLoopIO_ioWrite A key aad cs _ _ _ _ _ _ hb h

/-- (c) `UnexpectedData` ⇒ the first read was empty and the second delivered data; nothing was written -/
theorem encryptChunksIO_unexpected (s : Src) (k : Snk) (h : (encryptChunksIO A key aad cs s k).1 = .unexpectedData) :
    ∃ r0 s1 r s2, s.read cs = (.got r0, s1) ∧ r0.length = 0 ∧ s1.read cs = (.got r, s2) ∧ r.length ≠ 0 ∧
      encryptChunksIO A key aad cs s k = (.unexpectedData, s2, k) := by
  cases hread : s.read cs with
  | mk rr s' =>
    cases rr with
    | err => rw [encryptChunksIO_err A key aad cs hread] at h; simp at h
    | interrupted => rw [encryptChunksIO_int A key aad cs hread] at h; simp at h
    | got r0 =>
      rw [encryptChunksIO_got A key aad cs hread] at h ⊢
      obtain ⟨hd, r, s2, h1, h2, h3⟩ := encLoopIO_unexpected A key aad cs _ _ _ _ _ _ h
      exact ⟨r0, s', r, s2, rfl, by simpa using hd, h1, h2, h3⟩

/-- (c) a fault-free source never produces `UnexpectedData` -/
theorem encryptChunksIO_no_unexpected (hcs : 0 < cs) (s : Src) (k : Snk) (hff : Src.faultFree s) :
    (encryptChunksIO A key aad cs s k).1 ≠ .unexpectedData := by
  intro h
  obtain ⟨r0, s1, r, s2, h0, hr0, h1, hr, _⟩ := encryptChunksIO_unexpected A key aad cs s k h
  obtain ⟨j, _, hrj, hi, _, _, _, hpos⟩ := read_got h0
  have hj := hpos hff hcs
  obtain ⟨j', _, hrj', _⟩ := read_got h1
  rw [hrj, List.length_take] at hr0
  rw [hrj', hi, List.length_take, List.length_drop] at hr
  omega

/-- **(b) prefix property, every source and sink script.** What `encrypt_chunks` appends to the sink is a prefix
    of the pure-level output for the source's read schedule (error events deleted), and the whole of it when the
    call reports success. -/
theorem encryptChunksIO_prefix (s : Src) (k : Snk) :
    ∃ p, (encryptChunksIO A key aad cs s k).2.2.out = k.out ++ p ∧
      p <+: (encryptChunks A key aad (Src.reads cs s)).1 ∧
      ((encryptChunksIO A key aad cs s k).1 = .ok → p = (encryptChunks A key aad (Src.reads cs s)).1) := by
  cases hread : s.read cs with
  | mk rr s' =>
    cases rr with
    | err => rw [encryptChunksIO_err A key aad cs hread]; exact ⟨[], by simp, List.nil_prefix, by simp⟩
    | interrupted => rw [encryptChunksIO_int A key aad cs hread]; exact ⟨[], by simp, List.nil_prefix, by simp⟩
    | got r =>
      rw [encryptChunksIO_got A key aad cs hread]
      by_cases hr : r.length = 0
      · -- empty input: one more read decides between the single empty record and `UnexpectedData`
        have hb : (r.length == 0) = true := by simpa using hr
        rw [reads_got_nil cs hread hr, hb]
        have hpure : (encryptChunks A key aad [r]).1 = record A key aad (be64 0) 0 true r := by
          simp [encryptChunks, encLoop]
        rw [hpure]
        cases hread1 : s'.read cs with
        | mk rr1 s1 =>
          cases rr1 with
          | err => rw [encLoopIO_err A key aad cs hread1]; exact ⟨[], by simp, List.nil_prefix, by simp⟩
          | interrupted => rw [encLoopIO_int A key aad cs hread1]; exact ⟨[], by simp, List.nil_prefix, by simp⟩
          | got r1 =>
            by_cases hr1 : r1.length = 0
            · rw [encLoopIO_last A key aad cs hread1 hr1]
              obtain ⟨p, hst, hp, hok⟩ := recW_step A key aad 0 true r s1 k
              refine ⟨p, hst.out, hp, ?_⟩
              cases h : (recW A key aad 0 true r s1 k).1
              · simp
              · intro _; exact hok h
            · rw [encLoopIO_unexp A key aad cs hread1 hr1]
              exact ⟨[], by simp, List.nil_prefix, by simp⟩
      · have hb : (r.length == 0) = false := by simpa using hr
        have hm := read_got_measure hread hr
        rw [reads_got_cons cs hread hr, hb]
        simp only [encryptChunks, hb]
        exact encLoopIO_prefix A key aad cs _ 0 r false s' k _ (by omega)

/-- the pure level always succeeds on a read schedule -/
theorem encryptChunks_reads (s : Src) :
    encryptChunks A key aad (Src.reads cs s) = (serialize A key aad be64 0 (fileChunks (Src.reads cs s)), .ok) :=
  encryptChunks_eq A key aad _ (readsOf_wf cs _ s)

/-- **(a) fault-free refinement.** Source script all `data n` with `1 ≤ n`, sink benign: the I/O level computes
    exactly the pure level on the source's read schedule. -/
theorem encryptChunksIO_faultFree (hcs : 0 < cs) (s : Src) (k : Snk) (hs : Src.faultFree s) (hk : Snk.benign k) :
    (encryptChunksIO A key aad cs s k).1 = (encryptChunks A key aad (Src.reads cs s)).2 ∧
    (encryptChunksIO A key aad cs s k).2.2.out = k.out ++ (encryptChunks A key aad (Src.reads cs s)).1 := by
  have hok : (encryptChunksIO A key aad cs s k).1 = .ok := by
    rcases encryptChunksIO_res A key aad cs s k with h | h | h | h
    · exact h
    · exact absurd (encryptChunksIO_ioRead A key aad cs s k h) (faultFree_not_hasErr hs)
    · exact absurd hk (encryptChunksIO_ioWrite A key aad cs s k h)
    · exact absurd h (encryptChunksIO_no_unexpected A key aad cs hcs s k hs)
  obtain ⟨p, hp1, _, hp3⟩ := encryptChunksIO_prefix A key aad cs s k
  refine ⟨?_, by rw [hp1, hp3 hok]⟩
  rw [hok, encryptChunks_reads]

/-- (a) the read schedule of any source: well-formed, every read at most `cs` bytes -/
theorem reads_wf (s : Src) : wellFormedReads (Src.reads cs s) := readsOf_wf cs _ s
theorem reads_le (s : Src) : ∀ r ∈ Src.reads cs s, r.length ≤ cs := readsOf_le cs _ s
/-- (a) the read schedule of a fault-free source is a partition of its input -/
theorem reads_flatten (hcs : 0 < cs) (s : Src) (hs : Src.faultFree s) : (Src.reads cs s).flatten = s.inp :=
  readsOf_flatten cs hcs _ s hs (Nat.le_refl _)

end top

/-! ### (a) corollary: output length -/

/-- number of non-empty reads in a schedule -/
def numNonEmpty (reads : List Bytes) : Nat := (reads.filter (fun r => r.length != 0)).length

theorem chunksOf_length (reads : List Bytes) (hwf : wellFormedReads reads) :
    (chunksOf reads).length = numNonEmpty reads := by
  induction reads with
  | nil => rfl
  | cons r rs ih =>
    by_cases hr : r.length = 0
    · have hrs : rs = [] := hwf.1 hr
      subst hrs
      simp [chunksOf, numNonEmpty, hr]
    · have := ih (hwf.2 hr)
      simp only [numNonEmpty] at this ⊢
      simp [chunksOf, hr, this]

theorem fileChunks_length (reads : List Bytes) (hwf : wellFormedReads reads) :
    (fileChunks reads).length = max 1 (numNonEmpty reads) := by
  rw [← chunksOf_length reads hwf]
  unfold fileChunks
  split
  · rename_i h; simp [h]
  · rename_i h
    cases hc : chunksOf reads with
    | nil => exact absurd hc h
    | cons _ _ => simp

/-- (a) corollary: 32 bytes of framing per record, at least one record -/
theorem encryptChunksIO_length (A : Aead) (hA : A.Lawful) (key aad : Bytes) (hkey : key.length = 32) (cs : Nat)
    (hcs : 0 < cs) (s : Src) (k : Snk) (hs : Src.faultFree s) (hk : Snk.benign k) :
    (encryptChunksIO A key aad cs s k).2.2.out.length =
      k.out.length + 32 * max 1 (numNonEmpty (Src.reads cs s)) + s.inp.length := by
  rw [(encryptChunksIO_faultFree A key aad cs hcs s k hs hk).2, encryptChunks_reads, List.length_append,
    serialize_length A hA key aad hkey be64 be64_length, fileChunks_join _ (reads_wf cs s),
    fileChunks_length _ (reads_wf cs s), reads_flatten cs hcs s hs]
  omega

/-! ### (d) the nonce sequence -/

/-- the AEAD invocations of the pure look-ahead loop, in order: (nonce, last flag, plaintext);
    same recursion as `encLoop` -/
def encCalls : Nat → Bytes → Bool → List Bytes → List (Nat × Bool × Bytes)
  | ctr, prev, _, [] => [(ctr, true, prev)]
  | ctr, prev, done, r :: rs =>
    if r.length ≠ 0 && done then []
    else if (done || r.length == 0) then [(ctr, true, prev)]
    else (ctr, false, prev) :: encCalls (ctr+1) r false rs

/-- the nonces of the emitted records; same recursion as `encLoop` -/
def encNonces : Nat → Bool → List Bytes → List Nat
  | ctr, _, [] => [ctr]
  | ctr, done, r :: rs =>
    if r.length ≠ 0 && done then []
    else if (done || r.length == 0) then [ctr]
    else ctr :: encNonces (ctr+1) false rs

def encryptCalls (reads : List Bytes) : List (Nat × Bool × Bytes) :=
  match reads with
  | [] => encCalls 0 [] true []
  | r :: rs => encCalls 0 r (r.length == 0) rs

def encryptNonces (reads : List Bytes) : List Nat :=
  match reads with
  | [] => encNonces 0 true []
  | r :: rs => encNonces 0 (r.length == 0) rs

/-- a record as a function of its AEAD invocation -/
def recordOf (A : Aead) (key aad : Bytes) (c : Nat × Bool × Bytes) : Bytes :=
  record A key aad (be64 c.1) c.1 c.2.1 c.2.2

theorem encCalls_nonces : ∀ (rs : List Bytes) (ctr : Nat) (prev : Bytes) (done : Bool),
    (encCalls ctr prev done rs).map (·.1) = encNonces ctr done rs := by
  intro rs
  induction rs with
  | nil => intro _ _ _; rfl
  | cons r rs ih =>
    intro ctr prev done
    simp only [encCalls, encNonces]
    split
    · rfl
    · split
      · rfl
      · simp [ih]

/-- the output of the pure loop is the concatenation of its records, each sealed once under its nonce -/
theorem encLoop_calls (A : Aead) (key aad : Bytes) : ∀ (rs : List Bytes) (ctr : Nat) (prev : Bytes) (done : Bool),
    (encLoop A key aad ctr prev done rs).1 = ((encCalls ctr prev done rs).map (recordOf A key aad)).flatten := by
  intro rs
  induction rs with
  | nil => intro _ _ _; simp [encLoop, encCalls, recordOf]
  | cons r rs ih =>
    intro ctr prev done
    simp only [encLoop, encCalls]
    split
    · rfl
    · split
      · rename_i h; simp [recordOf, h]
      · rename_i h
        have hd : done = false := by cases done <;> simp_all
        have hr : (r.length == 0) = false := by cases hh : (r.length == 0) <;> simp_all
        simp [recordOf, hd, hr, ih]

/-- **(d)** the nonces used from counter `ctr` on are `ctr, ctr+1, …` without gap or repetition -/
theorem encNonces_range' : ∀ (rs : List Bytes) (ctr : Nat) (done : Bool),
    encNonces ctr done rs = List.range' ctr (encNonces ctr done rs).length := by
  intro rs
  induction rs with
  | nil => intro _ _; rfl
  | cons r rs ih =>
    intro ctr done
    simp only [encNonces]
    split
    · rfl
    · split
      · rfl
      · rw [List.length_cons, List.range'_succ, ← ih]

theorem encryptCalls_nonces (reads : List Bytes) : (encryptCalls reads).map (·.1) = encryptNonces reads := by
  cases reads with
  | nil => rfl
  | cons r rs => exact encCalls_nonces rs 0 r _

theorem encryptChunks_calls (A : Aead) (key aad : Bytes) (reads : List Bytes) :
    (encryptChunks A key aad reads).1 = ((encryptCalls reads).map (recordOf A key aad)).flatten := by
  cases reads with
  | nil => exact encLoop_calls A key aad [] 0 [] true
  | cons r rs => exact encLoop_calls A key aad rs 0 r _

/-- **(d)** a whole encryption uses the nonces `0, 1, …, n-1` in order, `n` = number of records -/
theorem encryptNonces_range (reads : List Bytes) : encryptNonces reads = List.range (encryptNonces reads).length := by
  rw [List.range_eq_range']
  cases reads with
  | nil => rfl
  | cons r rs => exact encNonces_range' rs 0 _

theorem encryptNonces_nodup (reads : List Bytes) : (encryptNonces reads).Nodup := by
  rw [encryptNonces_range]; exact List.nodup_range

/-- the plaintexts sealed are the chunks of the file, in order -/
theorem encCalls_chunks : ∀ (rs : List Bytes) (ctr : Nat) (prev : Bytes), wellFormedReads rs →
    (encCalls ctr prev false rs).map (·.2.2) = prev :: chunksOf rs := by
  intro rs
  induction rs with
  | nil => intro _ _ _; rfl
  | cons r rs ih =>
    intro ctr prev hwf
    by_cases hr : r.length = 0
    · have : rs = [] := hwf.1 hr
      subst this
      simp [encCalls, chunksOf, hr]
    · have hb : (r.length == 0) = false := by simpa using hr
      simp [encCalls, chunksOf, hr, hb, ih (ctr+1) r (hwf.2 hr)]

theorem encryptCalls_chunks (reads : List Bytes) (hwf : wellFormedReads reads) :
    (encryptCalls reads).map (·.2.2) = fileChunks reads := by
  cases reads with
  | nil => rfl
  | cons r rs =>
    by_cases hr : r.length = 0
    · have hrs : rs = [] := hwf.1 hr
      subst hrs
      have hrn : r = [] := List.eq_nil_of_length_eq_zero hr
      subst hrn
      rfl
    · have hb : (r.length == 0) = false := by simpa using hr
      simp only [encryptCalls, hb]
      rw [encCalls_chunks rs 0 r (hwf.2 hr)]
      simp [fileChunks, chunksOf, hr]

/-- the AEAD invocations behind any conforming stream (`serialize`): chunk `i` under nonce `ctr + i` -/
def serCalls : Nat → List Bytes → List (Nat × Bool × Bytes)
  | _, [] => []
  | ctr, [c] => [(ctr, true, c)]
  | ctr, c :: c' :: cs => (ctr, false, c) :: serCalls (ctr+1) (c' :: cs)

/-- **(d), `serialize` form**: the `i`-th record of `serialize … ctr cl` is sealed with nonce `ctr + i`,
    carries chunk `i`, and only the final one has the last flag -/
theorem serialize_nonces (A : Aead) (key aad : Bytes) (cf : Nat → Bytes) : ∀ (cl : List Bytes) (ctr : Nat),
    serialize A key aad cf ctr cl =
        ((serCalls ctr cl).map (fun c => record A key aad (cf c.1) c.1 c.2.1 c.2.2)).flatten ∧
    (serCalls ctr cl).map (·.1) = List.range' ctr cl.length ∧
    (serCalls ctr cl).map (·.2.2) = cl ∧
    (serCalls ctr cl).map (·.2.1) = List.replicate (cl.length - 1) false ++ (if cl = [] then [] else [true]) := by
  intro cl
  induction cl with
  | nil => intro _; simp [serialize, serCalls]
  | cons c rest ih =>
    intro ctr
    cases rest with
    | nil => simp [serialize, serCalls]
    | cons c' cs' =>
      obtain ⟨h1, h2, h3, h4⟩ := ih (ctr+1)
      refine ⟨?_, ?_, ?_, ?_⟩
      · simp only [serialize, serCalls, List.map_cons, List.flatten_cons, h1]
      · simp only [serCalls, List.map_cons, h2, List.length_cons, List.range'_succ]
      · simp only [serCalls, List.map_cons, h3]
      · simp only [serCalls, List.map_cons, h4]
        simp [List.replicate_succ]

/-! ### (e) read/write interleaving: the per-record trace of a run -/

/-- `ps` is what a run that may stop early — possibly inside a record — has written of the records `recs`:
    whole records, then at most one proper piece. -/
def Pieces : List Bytes → List Bytes → Prop
  | [], _ => True
  | _ :: _, [] => False
  | p :: ps, r :: rs => (p = r ∧ Pieces ps rs) ∨ (p <+: r ∧ ps = [])

theorem Pieces.flatten_prefix : ∀ (ps recs : List Bytes), Pieces ps recs → ps.flatten <+: recs.flatten := by
  intro ps
  induction ps with
  | nil => intro _ _; exact List.nil_prefix
  | cons p ps ih =>
    intro recs h
    cases recs with
    | nil => exact absurd h (by simp [Pieces])
    | cons r rs =>
      simp only [Pieces] at h
      rcases h with ⟨h1, h2⟩ | ⟨h1, h2⟩
      · subst h1
        simp only [List.flatten_cons]
        exact (List.prefix_append_right_inj _).mpr (ih rs h2)
      · subst h2
        simp only [List.flatten_cons, List.flatten_nil, List.append_nil]
        exact List.IsPrefix.trans h1 (List.prefix_append _ _)

theorem Pieces.length_le : ∀ (ps recs : List Bytes), Pieces ps recs → ps.length ≤ recs.length := by
  intro ps
  induction ps with
  | nil => intro _ _; simp
  | cons p ps ih =>
    intro recs h
    cases recs with
    | nil => exact absurd h (by simp [Pieces])
    | cons r rs =>
      simp only [Pieces] at h
      rcases h with ⟨_, h2⟩ | ⟨_, h2⟩
      · have := ih rs h2; simp; omega
      · subst h2; simp

/-- piece `i` of a trace is a prefix of record `i` -/
theorem Pieces.get : ∀ (ps recs : List Bytes), Pieces ps recs → ∀ (i : Nat) (h : i < ps.length) (h' : i < recs.length),
    ps[i] <+: recs[i] := by
  intro ps
  induction ps with
  | nil => intro _ _ i h; simp at h
  | cons p ps ih =>
    intro recs hp i h h'
    cases recs with
    | nil => simp at h'
    | cons r rs =>
      simp only [Pieces] at hp
      cases i with
      | zero =>
        rcases hp with ⟨h1, _⟩ | ⟨h1, _⟩
        · subst h1; exact List.prefix_refl _
        · exact h1
      | succ i =>
        rcases hp with ⟨_, h2⟩ | ⟨_, h2⟩
        · exact ih rs h2 i (by simpa using h) (by simpa using h')
        · subst h2; simp at h

/-- the log segment of record `i₀ + i` carries the stamp `st (i₀ + i)` (source position, number of `read()` calls
    made) and accounts for exactly the bytes of piece `i` -/
def Stamped (st : Nat → Nat × Nat) : Nat → List (List WLog) → List Bytes → Prop
  | _, [], [] => True
  | _, [], _ :: _ => False
  | _, _ :: _, [] => False
  | i, seg :: segs, p :: ps =>
    (∀ e ∈ seg, e.srcPos = (st i).1 ∧ e.srcReads = (st i).2) ∧ (seg.map (·.n)).sum = p.length ∧ Stamped st (i+1) segs ps

theorem Stamped.shift {st st' : Nat → Nat × Nat} (hst : ∀ j, st' j = st (j+1)) :
    ∀ (segs : List (List WLog)) (ps : List Bytes) (i : Nat), Stamped st' i segs ps → Stamped st (i+1) segs ps := by
  intro segs
  induction segs with
  | nil =>
    intro ps i h
    cases ps with
    | nil => trivial
    | cons _ _ => simp [Stamped] at h
  | cons seg segs ih =>
    intro ps i h
    cases ps with
    | nil => simp [Stamped] at h
    | cons p ps =>
      simp only [Stamped] at h ⊢
      exact ⟨by rw [← hst]; exact h.1, h.2.1, ih ps (i+1) h.2.2⟩

theorem Stamped.length_eq {st : Nat → Nat × Nat} : ∀ (segs : List (List WLog)) (ps : List Bytes) (i : Nat),
    Stamped st i segs ps → segs.length = ps.length := by
  intro segs
  induction segs with
  | nil => intro ps i h; cases ps <;> simp [Stamped] at h ⊢
  | cons seg segs ih =>
    intro ps i h
    cases ps with
    | nil => simp [Stamped] at h
    | cons p ps => simp only [Stamped] at h; simp [ih ps (i+1) h.2.2]

theorem Stamped.get {st : Nat → Nat × Nat} : ∀ (segs : List (List WLog)) (ps : List Bytes) (i0 : Nat),
    Stamped st i0 segs ps → ∀ (i : Nat) (h : i < segs.length) (h' : i < ps.length),
      (∀ e ∈ segs[i], e.srcPos = (st (i0 + i)).1 ∧ e.srcReads = (st (i0 + i)).2) ∧
      ((segs[i]).map (·.n)).sum = (ps[i]).length := by
  intro segs
  induction segs with
  | nil => intro _ _ _ i h; simp at h
  | cons seg segs ih =>
    intro ps i0 hst i h h'
    cases ps with
    | nil => simp at h'
    | cons p ps =>
      simp only [Stamped] at hst
      cases i with
      | zero => exact ⟨hst.1, hst.2.1⟩
      | succ i =>
        have := ih ps (i0+1) hst.2.2 i (by simpa using h) (by simpa using h')
        simpa [Nat.add_assoc, Nat.add_comm 1 i] using this

/-- between two consecutive records at most two reads' worth of plaintext is in flight -/
theorem take_flatten_window (cs : Nat) : ∀ (reads : List Bytes) (i : Nat), (∀ r ∈ reads, r.length ≤ cs) →
    ((reads.take (i+2)).flatten).length ≤ ((reads.take i).flatten).length + 2 * cs := by
  intro reads
  induction reads with
  | nil => intro i _; simp
  | cons a rs ih =>
    intro i hle
    have ha : a.length ≤ cs := hle a (by simp)
    cases i with
    | zero =>
      cases rs with
      | nil => simp; omega
      | cons b rs' =>
        have hb : b.length ≤ cs := hle b (by simp)
        simp; omega
    | succ i =>
      have := ih i (fun r hr => hle r (by simp [hr]))
      simp only [List.take_succ_cons, List.flatten_cons, List.length_append]
      omega

section trace
variable (A : Aead) (key aad : Bytes) (cs : Nat)

/-- **(e), loop invariant.** A run of the chunk loop decomposes into per-record pieces and log segments:
    the pieces are the pure level's records (the final one possibly cut short by a sink fault), all of them on
    success; and every log entry of the iteration that started at source state `s` after `j` earlier iterations is
    stamped with `s.nreads + j + 1` reads and the source position after those reads. -/
theorem encLoopIO_trace : ∀ (fuel ctr : Nat) (prev : Bytes) (done : Bool) (s : Src) (k : Snk) (f2 : Nat),
    s.inp.length + s.script.length + 1 ≤ f2 →
    ∃ (segs : List (List WLog)) (ps : List Bytes),
      (encLoopIO A key aad cs fuel ctr prev done s k).2.2.out = k.out ++ ps.flatten ∧
      (encLoopIO A key aad cs fuel ctr prev done s k).2.2.log = segs.reverse.flatten ++ k.log ∧
      Pieces ps ((encCalls ctr prev done (Src.readsOf cs f2 s)).map (recordOf A key aad)) ∧
      ((encLoopIO A key aad cs fuel ctr prev done s k).1 = .ok →
        ps = (encCalls ctr prev done (Src.readsOf cs f2 s)).map (recordOf A key aad)) ∧
      Stamped (fun j => (s.pos + (((Src.readsOf cs f2 s).take (j+1)).flatten).length, s.nreads + j + 1)) 0 segs ps := by
  intro fuel
  induction fuel with
  | zero => intro _ _ _ _ k _ _; exact ⟨[], [], by simp [encLoopIO], by simp [encLoopIO], trivial, by simp [encLoopIO], trivial⟩
  | succ fuel ih =>
    intro ctr prev done s k f2 hf2
    obtain ⟨f2, rfl⟩ : ∃ g, f2 = g + 1 := ⟨f2 - 1, by omega⟩
    cases hread : s.read cs with
    | mk rr s' =>
      cases rr with
      | err => rw [encLoopIO_err A key aad cs hread]; exact ⟨[], [], by simp, by simp, trivial, by simp, trivial⟩
      | interrupted => rw [encLoopIO_int A key aad cs hread]; exact ⟨[], [], by simp, by simp, trivial, by simp, trivial⟩
      | got r =>
        obtain ⟨j, _, _, _, _, hnr, hpos, _⟩ := read_got hread
        by_cases hr : r.length = 0
        · rw [encLoopIO_last A key aad cs hread hr, readsOf_got_nil cs hread hr]
          obtain ⟨p, hst, hp, hok⟩ := recW_step A key aad ctr true prev s' k
          obtain ⟨new, hlog, hat, hsum⟩ := hst.log
          have hcalls : (encCalls ctr prev done [r]).map (recordOf A key aad) = [record A key aad (be64 ctr) ctr true prev] := by
            simp [encCalls, hr, recordOf]
          rw [hcalls]
          refine ⟨[new], [p], by simp [hst.out], by simp [hlog], Or.inr ⟨hp, rfl⟩, ?_, ?_⟩
          · cases h : (recW A key aad ctr true prev s' k).1
            · simp
            · intro _; rw [hok h]
          · refine ⟨fun e he => ?_, hsum, trivial⟩
            have := hat e he
            simp only at this ⊢
            rw [this.1, this.2, hpos, hnr]
            simp
        · rw [readsOf_got_cons cs hread hr]
          cases done with
          | true =>
            rw [encLoopIO_unexp A key aad cs hread hr]
            exact ⟨[], [], by simp, by simp, trivial, by simp, trivial⟩
          | false =>
            have hb : (r.length == 0) = false := by simpa using hr
            have hcalls : (encCalls ctr prev false (r :: Src.readsOf cs f2 s')).map (recordOf A key aad) =
                record A key aad (be64 ctr) ctr false prev ::
                  (encCalls (ctr+1) r false (Src.readsOf cs f2 s')).map (recordOf A key aad) := by
              simp [encCalls, hr, hb, recordOf]
            rw [encLoopIO_more A key aad cs hread hr, hcalls]
            obtain ⟨p, hst, hp, hok⟩ := recW_step A key aad ctr false prev s' k
            obtain ⟨new, hlog, hat, hsum⟩ := hst.log
            have hstamp : ∀ e ∈ new, e.srcPos = s.pos + (((r :: Src.readsOf cs f2 s').take (0+1)).flatten).length ∧
                e.srcReads = s.nreads + 0 + 1 := by
              intro e he
              have := hat e he
              simp only at this
              rw [this.1, this.2, hpos, hnr]
              simp
            cases h : (recW A key aad ctr false prev s' k).1
            · simp only [Bool.false_eq_true, if_false]
              exact ⟨[new], [p], by simp [hst.out], by simp [hlog], Or.inr ⟨hp, rfl⟩, by simp, ⟨hstamp, hsum, trivial⟩⟩
            · simp only [if_true]
              have hm := read_got_measure hread hr
              obtain ⟨segs, ps, h1, h2, h3, h4, h5⟩ :=
                ih (ctr+1) r false s' (recW A key aad ctr false prev s' k).2 f2 (by omega)
              have hpe := hok h
              refine ⟨new :: segs, p :: ps, ?_, ?_, Or.inl ⟨hpe, h3⟩, ?_, ⟨hstamp, hsum, ?_⟩⟩
              · rw [h1, hst.out]; simp
              · rw [h2, hlog]; simp
              · intro hres; rw [hpe, h4 hres]
              · refine Stamped.shift (fun j => ?_) segs ps 0 h5
                simp only [List.take_succ_cons, List.flatten_cons, List.length_append, hpos, hnr]
                simp only [Prod.mk.injEq]
                omega

/-- **(e), whole call.** `encrypt_chunks` decomposes into per-record pieces `ps` and log segments `segs`
    (chronological; `Snk.log` is newest first): piece `i` is record `i` of the pure level (the final piece possibly
    cut short), and every `write()` that contributed to it happened when exactly `s.nreads + i + 2` `read()` calls
    had been made and the source stood after the first `i + 2` reads of the schedule. -/
theorem encryptChunksIO_trace (s : Src) (k : Snk) :
    ∃ (segs : List (List WLog)) (ps : List Bytes),
      (encryptChunksIO A key aad cs s k).2.2.out = k.out ++ ps.flatten ∧
      (encryptChunksIO A key aad cs s k).2.2.log = segs.reverse.flatten ++ k.log ∧
      Pieces ps ((encryptCalls (Src.reads cs s)).map (recordOf A key aad)) ∧
      ((encryptChunksIO A key aad cs s k).1 = .ok → ps = (encryptCalls (Src.reads cs s)).map (recordOf A key aad)) ∧
      Stamped (fun i => (s.pos + (((Src.reads cs s).take (i+2)).flatten).length, s.nreads + i + 2)) 0 segs ps := by
  cases hread : s.read cs with
  | mk rr s' =>
    cases rr with
    | err => rw [encryptChunksIO_err A key aad cs hread]; exact ⟨[], [], by simp, by simp, trivial, by simp, trivial⟩
    | interrupted => rw [encryptChunksIO_int A key aad cs hread]; exact ⟨[], [], by simp, by simp, trivial, by simp, trivial⟩
    | got r =>
      obtain ⟨j, _, _, _, _, hnr, hpos, _⟩ := read_got hread
      rw [encryptChunksIO_got A key aad cs hread]
      by_cases hr : r.length = 0
      · have hb : (r.length == 0) = true := by simpa using hr
        rw [reads_got_nil cs hread hr, hb]
        have hcalls : (encryptCalls [r]).map (recordOf A key aad) = [record A key aad (be64 0) 0 true r] := by
          simp [encryptCalls, encCalls, recordOf]
        rw [hcalls]
        cases hread1 : s'.read cs with
        | mk rr1 s1 =>
          cases rr1 with
          | err => rw [encLoopIO_err A key aad cs hread1]; exact ⟨[], [], by simp, by simp, trivial, by simp, trivial⟩
          | interrupted => rw [encLoopIO_int A key aad cs hread1]; exact ⟨[], [], by simp, by simp, trivial, by simp, trivial⟩
          | got r1 =>
            obtain ⟨j1, _, _, _, _, hnr1, hpos1, _⟩ := read_got hread1
            by_cases hr1 : r1.length = 0
            · rw [encLoopIO_last A key aad cs hread1 hr1]
              obtain ⟨p, hst, hp, hok⟩ := recW_step A key aad 0 true r s1 k
              obtain ⟨new, hlog, hat, hsum⟩ := hst.log
              refine ⟨[new], [p], by simp [hst.out], by simp [hlog], Or.inr ⟨hp, rfl⟩, ?_, ?_⟩
              · cases h : (recW A key aad 0 true r s1 k).1
                · simp
                · intro _; rw [hok h]
              · refine ⟨fun e he => ?_, hsum, trivial⟩
                have := hat e he
                simp only at this ⊢
                rw [this.1, this.2, hpos1, hnr1, hpos, hnr, hr1]
                simp
            · rw [encLoopIO_unexp A key aad cs hread1 hr1]
              exact ⟨[], [], by simp, by simp, trivial, by simp, trivial⟩
      · have hb : (r.length == 0) = false := by simpa using hr
        have hm := read_got_measure hread hr
        rw [reads_got_cons cs hread hr, hb]
        simp only [encryptCalls, hb]
        obtain ⟨segs, ps, h1, h2, h3, h4, h5⟩ := encLoopIO_trace A key aad cs
          ((s'.inp.length + s'.script.length + 1) + 1) 0 r false s' k (s.inp.length + s.script.length) (by omega)
        refine ⟨segs, ps, h1, h2, h3, h4, ?_⟩
        have hfun : (fun i => (s.pos + (((r :: Src.readsOf cs (s.inp.length + s.script.length) s').take (i+2)).flatten).length,
              s.nreads + i + 2)) =
            (fun j => (s'.pos + (((Src.readsOf cs (s.inp.length + s.script.length) s').take (j+1)).flatten).length,
              s'.nreads + j + 1)) := by
          funext i
          simp only [List.take_succ_cons, List.flatten_cons, List.length_append, hpos, hnr, Prod.mk.injEq]
          omega
        rw [hfun]
        exact h5

end trace

/-! ### (b) in the "same source with its error events deleted" form -/

/-- the source with the error events deleted from its script -/
def Src.clean (s : Src) : Src :=
  { s with script := s.script.filter (fun e => match e with | .data _ => true | _ => false) }

theorem read_congr {s t : Src} (cs : Nat) (hi : s.inp = t.inp) (hs : s.script = t.script) :
    (s.read cs).1 = (t.read cs).1 ∧ (s.read cs).2.inp = (t.read cs).2.inp ∧ (s.read cs).2.script = (t.read cs).2.script := by
  unfold Src.read
  rw [← hs, ← hi]
  cases s.script with
  | nil => simp
  | cons e sc => cases e <;> simp

/-- the schedule depends only on the remaining input and script -/
theorem readsOf_congr (cs : Nat) : ∀ (f : Nat) (s t : Src), s.inp = t.inp → s.script = t.script →
    Src.readsOf cs f s = Src.readsOf cs f t := by
  intro f
  induction f with
  | zero => intro _ _ _ _; rfl
  | succ f ih =>
    intro s t hi hs
    obtain ⟨h1, h2, h3⟩ := read_congr cs hi hs
    unfold Src.readsOf
    cases hsr : s.read cs with
    | mk rs s' =>
      cases htr : t.read cs with
      | mk rt t' =>
        rw [hsr, htr] at h1 h2 h3
        simp only at h1 h2 h3
        subst h1
        cases rs with
        | got r => simp only; rw [ih s' t' h2 h3]
        | err => exact ih s' t' h2 h3
        | interrupted => exact ih s' t' h2 h3

theorem clean_script_length (s : Src) : (Src.clean s).script.length ≤ s.script.length :=
  List.length_filter_le _ _

theorem readsOf_clean (cs : Nat) : ∀ (f : Nat) (s : Src), s.inp.length + s.script.length + 1 ≤ f →
    Src.readsOf cs f (Src.clean s) = Src.readsOf cs f s := by
  intro f
  induction f with
  | zero => intro s h; omega
  | succ f ih =>
    intro s hf
    cases hsc : s.script with
    | nil =>
      have : Src.clean s = s := by
        cases s; simp only [Src.clean] at hsc ⊢; subst hsc; rfl
      rw [this]
    | cons e sc =>
      cases e with
      | data n =>
        have hr : s.read cs = (.got (s.inp.take (min n cs)),
            { inp := s.inp.drop (min n cs), script := sc, pos := s.pos + min (min n cs) s.inp.length, nreads := s.nreads + 1 }) := by
          simp [Src.read, hsc]
        have hrc : (Src.clean s).read cs = (.got (s.inp.take (min n cs)),
            Src.clean { inp := s.inp.drop (min n cs), script := sc, pos := s.pos + min (min n cs) s.inp.length, nreads := s.nreads + 1 }) := by
          simp [Src.read, Src.clean, hsc]
        unfold Src.readsOf
        rw [hr, hrc]
        simp only
        split
        · rfl
        · rename_i hne
          have hm := read_got_measure hr hne
          rw [ih _ (by simp only at hm ⊢; omega)]
      | errOther =>
        have hr : s.read cs = (.err, { s with script := sc, nreads := s.nreads + 1 }) := by
          simp [Src.read, hsc]
        have hcl : (Src.clean s).inp = (Src.clean { s with script := sc, nreads := s.nreads + 1 }).inp ∧
            (Src.clean s).script = (Src.clean { s with script := sc, nreads := s.nreads + 1 }).script := by
          simp [Src.clean, hsc]
        have hlen := clean_script_length { s with script := sc, nreads := s.nreads + 1 }
        have hci : (Src.clean { s with script := sc, nreads := s.nreads + 1 }).inp = s.inp := rfl
        rw [hsc] at hf; simp only [List.length_cons] at hf
        simp only at hlen
        rw [readsOf_congr cs (f+1) _ _ hcl.1 hcl.2,
          readsOf_fuel cs (f+1) f _ (by rw [hci]; omega) (by rw [hci]; omega), ih _ (by simp only; omega)]
        conv => rhs; unfold Src.readsOf; rw [hr]
      | errInterrupted =>
        have hr : s.read cs = (.interrupted, { s with script := sc, nreads := s.nreads + 1 }) := by
          simp [Src.read, hsc]
        have hcl : (Src.clean s).inp = (Src.clean { s with script := sc, nreads := s.nreads + 1 }).inp ∧
            (Src.clean s).script = (Src.clean { s with script := sc, nreads := s.nreads + 1 }).script := by
          simp [Src.clean, hsc]
        have hlen := clean_script_length { s with script := sc, nreads := s.nreads + 1 }
        have hci : (Src.clean { s with script := sc, nreads := s.nreads + 1 }).inp = s.inp := rfl
        rw [hsc] at hf; simp only [List.length_cons] at hf
        simp only at hlen
        rw [readsOf_congr cs (f+1) _ _ hcl.1 hcl.2,
          readsOf_fuel cs (f+1) f _ (by rw [hci]; omega) (by rw [hci]; omega), ih _ (by simp only; omega)]
        conv => rhs; unfold Src.readsOf; rw [hr]

/-- deleting the error events does not change the read schedule -/
theorem reads_clean (cs : Nat) (s : Src) : Src.reads cs (Src.clean s) = Src.reads cs s := by
  have hlen := clean_script_length s
  have hci : (Src.clean s).inp = s.inp := rfl
  unfold Src.reads Src.rfuel
  rw [readsOf_fuel cs _ (s.inp.length + s.script.length + 1) (Src.clean s) (Nat.le_refl _) (by rw [hci]; omega)]
  exact readsOf_clean cs _ s (Nat.le_refl _)

/-- **(b), literal form.** For every source and sink script: what the call appends is a prefix of what the same
    call appends when the source's error events are deleted and the sink is benign (any such sink `k0`), provided the
    remaining read events are conforming; and it is all of it when the call reports success. -/
theorem encryptChunksIO_prefix_clean (A : Aead) (key aad : Bytes) (cs : Nat) (hcs : 0 < cs) (s : Src) (k k0 : Snk)
    (hclean : Src.faultFree (Src.clean s)) (hk0 : Snk.benign k0) :
    ∃ p q, (encryptChunksIO A key aad cs s k).2.2.out = k.out ++ p ∧
      (encryptChunksIO A key aad cs (Src.clean s) k0).1 = .ok ∧
      (encryptChunksIO A key aad cs (Src.clean s) k0).2.2.out = k0.out ++ q ∧
      p <+: q ∧ ((encryptChunksIO A key aad cs s k).1 = .ok → p = q) := by
  obtain ⟨p, h1, h2, h3⟩ := encryptChunksIO_prefix A key aad cs s k
  obtain ⟨g1, g2⟩ := encryptChunksIO_faultFree A key aad cs hcs (Src.clean s) k0 hclean hk0
  rw [reads_clean] at g1 g2
  rw [encryptChunks_reads] at g1
  exact ⟨p, _, h1, g1, g2, h2, h3⟩

/-! ### header record, then the chunk loop: the common shape of `key_encrypt` and `pass_encrypt` -/

/-- write the file header as one record at the initial source state, then run `encrypt_chunks` -/
def hdrThenChunks (A : Aead) (key aad : Bytes) (cs : Nat) (hdr body : Bytes) (src : Src) (k : Snk) : Res × Src × Snk :=
  if (writeRecord k (src.pos, src.nreads) hdr body).1 then
    encryptChunksIO A key aad cs src (writeRecord k (src.pos, src.nreads) hdr body).2
  else (.ioWrite, src, (writeRecord k (src.pos, src.nreads) hdr body).2)

open Generated in
theorem keyEncryptIO_error (P : Prims) (s spk rs e epk pk : Bytes) (src : Src) (k : Snk) {err : Noise.Err}
    (h : Noise.writeMessage P encPrologue s spk rs e epk pk = .error err) :
    keyEncryptIO P s spk rs e epk pk src k = (.other, src, k) := by
  simp only [keyEncryptIO, h]

open Generated in
theorem keyEncryptIO_ok (P : Prims) (s spk rs e epk pk : Bytes) (src : Src) (k : Snk) {msg hh : Bytes}
    (h : Noise.writeMessage P encPrologue s spk rs e epk pk = .ok (msg, hh)) :
    keyEncryptIO P s spk rs e epk pk src k =
      hdrThenChunks P.aead (P.hkdfFile pk hh) [] chunkSize encPrologue msg src k := by
  simp only [keyEncryptIO, h, hdrThenChunks]
  generalize writeRecord k _ _ _ = w
  obtain ⟨b, k2⟩ := w
  cases b <;> simp

open Generated in
theorem keyEncrypt_error (P : Prims) (s spk rs e epk pk : Bytes) (reads : List Bytes) {err : Noise.Err}
    (h : Noise.writeMessage P encPrologue s spk rs e epk pk = .error err) :
    keyEncrypt P s spk rs e epk pk reads = ([], .other) := by
  simp only [keyEncrypt, h]

open Generated in
theorem keyEncrypt_ok (P : Prims) (s spk rs e epk pk : Bytes) (reads : List Bytes) {msg hh : Bytes}
    (h : Noise.writeMessage P encPrologue s spk rs e epk pk = .ok (msg, hh)) :
    keyEncrypt P s spk rs e epk pk reads =
      (encPrologue ++ msg ++ (encryptChunks P.aead (P.hkdfFile pk hh) [] reads).1,
       (encryptChunks P.aead (P.hkdfFile pk hh) [] reads).2) := by
  simp only [keyEncrypt, h]

open Generated in
theorem passEncryptIO_eq (P : Prims) (pw salt : Bytes) (src : Src) (k : Snk) :
    passEncryptIO P pw salt src k =
      hdrThenChunks P.aead (P.kdf pw salt) encPassMagic chunkSize encPassMagic salt src k := by
  simp only [passEncryptIO, hdrThenChunks]
  generalize writeRecord k _ _ _ = w
  obtain ⟨b, k2⟩ := w
  cases b <;> simp

open Generated in
theorem passEncrypt_eq (P : Prims) (pw salt : Bytes) (reads : List Bytes) :
    passEncrypt P pw salt reads =
      (encPassMagic ++ salt ++ (encryptChunks P.aead (P.kdf pw salt) encPassMagic reads).1,
       (encryptChunks P.aead (P.kdf pw salt) encPassMagic reads).2) := by
  simp only [passEncrypt]

section htc
variable (A : Aead) (key aad : Bytes) (cs : Nat) (hdr body : Bytes)

theorem htc_res (src : Src) (k : Snk) :
    (hdrThenChunks A key aad cs hdr body src k).1 = .ok ∨ (hdrThenChunks A key aad cs hdr body src k).1 = .ioRead ∨
    (hdrThenChunks A key aad cs hdr body src k).1 = .ioWrite ∨
    (hdrThenChunks A key aad cs hdr body src k).1 = .unexpectedData := by
  unfold hdrThenChunks
  split
  · exact encryptChunksIO_res A key aad cs _ _
  · simp

theorem htc_ioRead (src : Src) (k : Snk) (h : (hdrThenChunks A key aad cs hdr body src k).1 = .ioRead) :
    Src.hasErr src := by
  unfold hdrThenChunks at h
  split at h
  · exact encryptChunksIO_ioRead A key aad cs _ _ h
  · simp at h

theorem htc_ioWrite (src : Src) (k : Snk) (h : (hdrThenChunks A key aad cs hdr body src k).1 = .ioWrite) :
    ¬ Snk.benign k := by
  intro hb
  have hw := writeRecord_benign (src.pos, src.nreads) k hdr body hb
  obtain ⟨p, hst, _, _⟩ := writeRecord_step (src.pos, src.nreads) k hdr body
  unfold hdrThenChunks at h
  rw [if_pos hw] at h
  exact encryptChunksIO_ioWrite A key aad cs _ _ h (hst.benign hb)

theorem htc_no_unexpected (hcs : 0 < cs) (src : Src) (k : Snk) (hff : Src.faultFree src) :
    (hdrThenChunks A key aad cs hdr body src k).1 ≠ .unexpectedData := by
  unfold hdrThenChunks
  split
  · exact encryptChunksIO_no_unexpected A key aad cs hcs _ _ hff
  · simp

theorem htc_unexpected (src : Src) (k : Snk) (h : (hdrThenChunks A key aad cs hdr body src k).1 = .unexpectedData) :
    ∃ r0 s1 r s2, src.read cs = (.got r0, s1) ∧ r0.length = 0 ∧ s1.read cs = (.got r, s2) ∧ r.length ≠ 0 := by
  unfold hdrThenChunks at h
  split at h
  · obtain ⟨r0, s1, r, s2, h1, h2, h3, h4, _⟩ := encryptChunksIO_unexpected A key aad cs _ _ h
    exact ⟨r0, s1, r, s2, h1, h2, h3, h4⟩
  · simp at h

theorem htc_prefix (src : Src) (k : Snk) :
    ∃ p, (hdrThenChunks A key aad cs hdr body src k).2.2.out = k.out ++ p ∧
      p <+: hdr ++ body ++ (encryptChunks A key aad (Src.reads cs src)).1 ∧
      ((hdrThenChunks A key aad cs hdr body src k).1 = .ok →
        p = hdr ++ body ++ (encryptChunks A key aad (Src.reads cs src)).1) := by
  obtain ⟨p, hst, hp, hok⟩ := writeRecord_step (src.pos, src.nreads) k hdr body
  unfold hdrThenChunks
  split
  · rename_i hw
    obtain ⟨q, hq1, hq2, hq3⟩ := encryptChunksIO_prefix A key aad cs src (writeRecord k (src.pos, src.nreads) hdr body).2
    have hpe := hok hw
    refine ⟨p ++ q, by rw [hq1, hst.out, List.append_assoc], ?_, ?_⟩
    · rw [hpe]; exact (List.prefix_append_right_inj _).mpr hq2
    · intro hres; rw [hpe, hq3 hres]
  · exact ⟨p, hst.out, List.IsPrefix.trans hp (List.prefix_append _ _), by simp⟩

theorem htc_faultFree (hcs : 0 < cs) (src : Src) (k : Snk) (hs : Src.faultFree src) (hk : Snk.benign k) :
    (hdrThenChunks A key aad cs hdr body src k).1 = (encryptChunks A key aad (Src.reads cs src)).2 ∧
    (hdrThenChunks A key aad cs hdr body src k).2.2.out =
      k.out ++ (hdr ++ body ++ (encryptChunks A key aad (Src.reads cs src)).1) := by
  have hw := writeRecord_benign (src.pos, src.nreads) k hdr body hk
  obtain ⟨p, hst, _, hok⟩ := writeRecord_step (src.pos, src.nreads) k hdr body
  obtain ⟨h1, h2⟩ := encryptChunksIO_faultFree A key aad cs hcs src _ hs (hst.benign hk)
  unfold hdrThenChunks
  rw [if_pos hw]
  refine ⟨h1, ?_⟩
  rw [h2, hst.out, hok hw]
  simp only [List.append_assoc]

/-- (e) for the whole file: the header is written before the first `read()`, then the per-record trace -/
theorem htc_trace (src : Src) (k : Snk) :
    ∃ (hseg : List WLog) (hp : Bytes) (segs : List (List WLog)) (ps : List Bytes),
      (hdrThenChunks A key aad cs hdr body src k).2.2.out = k.out ++ hp ++ ps.flatten ∧
      (hdrThenChunks A key aad cs hdr body src k).2.2.log = segs.reverse.flatten ++ hseg ++ k.log ∧
      hp <+: hdr ++ body ∧ (ps ≠ [] → hp = hdr ++ body) ∧
      (∀ e ∈ hseg, e.srcPos = src.pos ∧ e.srcReads = src.nreads) ∧ (hseg.map (·.n)).sum = hp.length ∧
      Pieces ps ((encryptCalls (Src.reads cs src)).map (recordOf A key aad)) ∧
      ((hdrThenChunks A key aad cs hdr body src k).1 = .ok →
        hp = hdr ++ body ∧ ps = (encryptCalls (Src.reads cs src)).map (recordOf A key aad)) ∧
      Stamped (fun i => (src.pos + (((Src.reads cs src).take (i+2)).flatten).length, src.nreads + i + 2)) 0 segs ps := by
  obtain ⟨p, hst, hp, hok⟩ := writeRecord_step (src.pos, src.nreads) k hdr body
  obtain ⟨new, hlog, hat, hsum⟩ := hst.log
  unfold hdrThenChunks
  split
  · rename_i hw
    obtain ⟨segs, ps, h1, h2, h3, h4, h5⟩ :=
      encryptChunksIO_trace A key aad cs src (writeRecord k (src.pos, src.nreads) hdr body).2
    have hpe := hok hw
    refine ⟨new, p, segs, ps, ?_, ?_, hp, fun _ => hpe, hat, hsum, h3, fun hres => ⟨hpe, h4 hres⟩, h5⟩
    · rw [h1, hst.out]
    · rw [h2, hlog, List.append_assoc]
  · exact ⟨new, p, [], [], by simp [hst.out], by simp [hlog], hp, by simp, hat, hsum, trivial, by simp, trivial⟩

end htc

/-- (a) corollary for the whole file -/
theorem htc_length (A : Aead) (hA : A.Lawful) (key aad : Bytes) (hkey : key.length = 32) (cs : Nat) (hcs : 0 < cs)
    (hdr body : Bytes) (src : Src) (k : Snk) (hs : Src.faultFree src) (hk : Snk.benign k) :
    (hdrThenChunks A key aad cs hdr body src k).2.2.out.length =
      k.out.length + (hdr.length + body.length) + 32 * max 1 (numNonEmpty (Src.reads cs src)) + src.inp.length := by
  rw [(htc_faultFree A key aad cs hdr body hcs src k hs hk).2, encryptChunks_reads]
  simp only [List.length_append]
  rw [serialize_length A hA key aad hkey be64 be64_length, fileChunks_join _ (reads_wf cs src),
    fileChunks_length _ (reads_wf cs src), reads_flatten cs hcs src hs]
  omega

/-- (e) in words: while record `i` is being written exactly `i + 2` reads have been made, and the plaintext read but
    not yet covered by records `< i` is at most two buffers (`prev` and the look-ahead read) -/
theorem Stamped.window (cs pos nr : Nat) (reads : List Bytes) (hle : ∀ r ∈ reads, r.length ≤ cs)
    (segs : List (List WLog)) (ps : List Bytes)
    (h : Stamped (fun i => (pos + ((reads.take (i+2)).flatten).length, nr + i + 2)) 0 segs ps) :
    ∀ (i : Nat) (hi : i < segs.length), ∀ e ∈ segs[i],
      e.srcReads = nr + i + 2 ∧
      pos + ((reads.take i).flatten).length ≤ e.srcPos ∧
      e.srcPos ≤ pos + ((reads.take i).flatten).length + 2 * cs := by
  intro i hi e he
  have hlen := Stamped.length_eq segs ps 0 h
  obtain ⟨hg, _⟩ := Stamped.get segs ps 0 h i hi (by omega)
  obtain ⟨h1, h2⟩ := hg e he
  simp only [Nat.zero_add] at h1 h2
  have hw := take_flatten_window cs reads i hle
  have hmono : ((reads.take i).flatten).length ≤ ((reads.take (i+2)).flatten).length := by
    have : reads.take i = (reads.take (i+2)).take i := by rw [List.take_take]; congr 1; omega
    rw [this]
    conv => rhs; rw [← List.take_append_drop i (reads.take (i+2))]
    simp only [List.flatten_append, List.length_append]
    omega
  refine ⟨h2, ?_, ?_⟩ <;> omega

end Kestrel.EncIO
