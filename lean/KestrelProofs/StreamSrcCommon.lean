/-
  Lemmas shared by KestrelProofs/StreamSrcEnc.lean and KestrelProofs/StreamSrcDec.lean: the Lean code *generated from*
  `src/crypto/src/encrypt.rs` and `decrypt.rs` (KestrelModel/GeneratedStream.lean, namespace `Kestrel.StreamSrc`, produced by
  tools/rs2lean_stream.py) equals the hand-written I/O-level model (KestrelModel/Chunks.lean, File.lean).

  The encrypt side and the decrypt side live in separate modules so that a change of `encrypt.rs` cannot break the module
  of the decrypt theorems and vice versa.  Nothing in this file mentions a definition of the `encrypt` / `decrypt` namespaces
  of the generated file (only the crate-level constants, which both sides use).

  How the proofs are kept independent of incidental structure of the Rust text (see also tools/selftest_stream_scrypt.py):
    * named constants and helper functions are `@[simp]` in the generated file and are unfolded by `rs_unfold`
      (KestrelProofs/RsUnfold.lean) without being named: introducing a constant for a literal, or moving lines of a target
      function into a private helper, leaves what the proofs see unchanged;
    * the generated loop body, its captured parameters and its initial state are never restated: they are obtained by
      unification (`loop_sim` lemmas take the body as an argument), so hoisting a loop invariant out of the loop or renaming
      locals changes nothing in the statements;
    * the only shape-dependent definitions are the *views* (`encV…`, `decV…`): which component of the tuple of variables the
      loop body assigns is the source, the sink, the counter, …; the translator orders that tuple by first assignment inside
      the loop, so it does not depend on names or on declaration order.  A view exists per tuple shape met so far
      (decrypt: with and without a `done` flag); the function-level theorems try the views in turn (`first`);
    * each view has two strengths for the buffer `auth_data`: its length only (the body refills the AAD prefix on every
      iteration), or length and prefix (the prefix is written once before the loop);
    * straight-line code is compared after `simp` normal forms (`Rs.copyFromSlice` of equal lengths, `if r != ok then r else
      ok`, `if c then true else false`), never by `rfl` against a fixed text.
  None of this weakens a statement: the theorems of KestrelProps/StreamSrc*.lean are equations between the generated
  functions and the hand-written model.
-/
import KestrelModel.GeneratedStream
import KestrelProofs.IOBasics
import KestrelModel.File
import KestrelProofs.RsUnfold
namespace Kestrel
namespace StreamSrc

/-! ### slices and `copy_from_slice` -/

theorem copyFromSlice_eq {α} (dst src : List α) (h : dst.length = src.length) : Rs.copyFromSlice dst src = src := by
  unfold Rs.copyFromSlice
  rw [h, List.take_length, List.drop_eq_nil_of_le (Nat.le_of_eq h), List.append_nil]

/-- `copy_from_slice` never changes the length of the destination (in Rust it panics unless the lengths agree) -/
theorem length_copyFromSlice {α} (dst src : List α) : (Rs.copyFromSlice dst src).length = dst.length := by
  unfold Rs.copyFromSlice
  rw [List.length_append, List.length_take, List.length_drop]; omega

theorem be32_truncU32 (n : Nat) : be32 (Rs.truncU32 n) = be32 n := by
  unfold be32 Rs.truncU32
  have h1 : n % 2^32 / 2^24 % 256 = n / 2^24 % 256 := by omega
  have h2 : n % 2^32 / 2^16 % 256 = n / 2^16 % 256 := by omega
  have h3 : n % 2^32 / 2^8 % 256 = n / 2^8 % 256 := by omega
  have h4 : n % 2^32 % 256 = n % 256 := by omega
  rw [h1, h2, h3, h4]

/-- the AAD prefix written once: `auth_data[..aad.len()].copy_from_slice(aad)` on a buffer of `aad.len() + 8` bytes -/
theorem auth_prefix (auth aad : Bytes) (ha : auth.length = aad.length + 8) :
    Rs.copyFromSlice (auth.take aad.length) aad ++ auth.drop aad.length = aad ++ auth.drop aad.length := by
  rw [copyFromSlice_eq _ _ (by rw [List.length_take]; omega)]

/-- the two per-chunk `copy_from_slice` calls on a buffer that already starts with the AAD -/
theorem auth_fill2 (auth aad lastB lenB : Bytes) (ha : auth.length = aad.length + 8) (hp : auth.take aad.length = aad)
    (h1 : lastB.length = 4) (h2 : lenB.length = 4) :
    let a2 := auth.take aad.length ++ Rs.copyFromSlice ((auth.drop aad.length).take (aad.length + 4 - aad.length)) lastB ++ auth.drop (aad.length + 4)
    let a3 := a2.take (aad.length + 4) ++ Rs.copyFromSlice (a2.drop (aad.length + 4)) lenB
    a3 = aad ++ lastB ++ lenB := by
  intro a2 a3
  have e2 : a2 = aad ++ lastB ++ auth.drop (aad.length + 4) := by
    show auth.take aad.length ++ Rs.copyFromSlice ((auth.drop aad.length).take (aad.length + 4 - aad.length)) lastB ++ auth.drop (aad.length + 4) = _
    rw [hp, copyFromSlice_eq _ _ (by rw [List.length_take, List.length_drop]; omega)]
  show a2.take (aad.length + 4) ++ Rs.copyFromSlice (a2.drop (aad.length + 4)) lenB = _
  have hl : (aad ++ lastB).length = aad.length + 4 := by rw [List.length_append, h1]
  rw [e2, ← hl, List.take_left', List.drop_left', copyFromSlice_eq _ _ (by rw [List.length_drop]; omega)]
  rfl; rfl

/-- the three `copy_from_slice` calls that fill `auth_data` -/
theorem auth_fill (auth aad lastB lenB : Bytes) (ha : auth.length = aad.length + 8) (h1 : lastB.length = 4) (h2 : lenB.length = 4) :
    let a1 := Rs.copyFromSlice (auth.take aad.length) aad ++ auth.drop aad.length
    let a2 := a1.take aad.length ++ Rs.copyFromSlice ((a1.drop aad.length).take (aad.length + 4 - aad.length)) lastB ++ a1.drop (aad.length + 4)
    let a3 := a2.take (aad.length + 4) ++ Rs.copyFromSlice (a2.drop (aad.length + 4)) lenB
    a3 = aad ++ lastB ++ lenB := by
  intro a1 a2 a3
  have e1 : a1 = aad ++ auth.drop aad.length := auth_prefix auth aad ha
  have hl1 : a1.length = aad.length + 8 := by rw [e1, List.length_append, List.length_drop]; omega
  have hp1 : a1.take aad.length = aad := by rw [e1, List.take_left' rfl]
  exact auth_fill2 a1 aad lastB lenB hl1 hp1 h1 h2

/-- the three `copy_from_slice` calls that fill `chunk_header` -/
theorem hdr_fill (h0 c lastB lenB : Bytes) (hh : h0.length = 16) (hc : c.length = 8) (h1 : lastB.length = 4) (h2 : lenB.length = 4) :
    let a1 := Rs.copyFromSlice (h0.take 8) c ++ h0.drop 8
    let a2 := a1.take 8 ++ Rs.copyFromSlice ((a1.drop 8).take (12 - 8)) lastB ++ a1.drop 12
    let a3 := a2.take 12 ++ Rs.copyFromSlice (a2.drop 12) lenB
    a3 = c ++ lastB ++ lenB := by
  intro a1 a2 a3
  have e1 : a1 = c ++ h0.drop 8 := by
    show Rs.copyFromSlice (h0.take 8) c ++ h0.drop 8 = _
    rw [copyFromSlice_eq _ _ (by rw [List.length_take]; omega)]
  have e2 : a2 = c ++ lastB ++ h0.drop 12 := by
    show a1.take 8 ++ Rs.copyFromSlice ((a1.drop 8).take (12 - 8)) lastB ++ a1.drop 12 = _
    rw [e1, List.take_left' hc, List.drop_left' hc, copyFromSlice_eq _ _ (by rw [List.length_take, List.length_drop]; omega)]
    congr 1
    rw [show 12 = 8 + 4 from rfl, ← List.drop_drop, List.drop_left' hc, List.drop_drop]
  show a2.take 12 ++ Rs.copyFromSlice (a2.drop 12) lenB = _
  have hl : (c ++ lastB).length = 12 := by rw [List.length_append, h1, hc]
  rw [e2, List.take_left' hl, List.drop_left' hl, copyFromSlice_eq _ _ (by rw [List.length_drop]; omega)]

/-! the same three lemmas with the `let`s substituted: the form in which `simp only` meets them in an unfolded loop body -/

theorem hdr_fill' (h0 c lastB lenB : Bytes) (hh : h0.length = 16) (hc : c.length = 8) (h1 : lastB.length = 4) (h2 : lenB.length = 4) :
    List.take 12 (List.take 8 (Rs.copyFromSlice (List.take 8 h0) c ++ List.drop 8 h0) ++
        Rs.copyFromSlice (List.take (12 - 8) (List.drop 8 (Rs.copyFromSlice (List.take 8 h0) c ++ List.drop 8 h0))) lastB ++
        List.drop 12 (Rs.copyFromSlice (List.take 8 h0) c ++ List.drop 8 h0)) ++
      Rs.copyFromSlice (List.drop 12 (List.take 8 (Rs.copyFromSlice (List.take 8 h0) c ++ List.drop 8 h0) ++
        Rs.copyFromSlice (List.take (12 - 8) (List.drop 8 (Rs.copyFromSlice (List.take 8 h0) c ++ List.drop 8 h0))) lastB ++
        List.drop 12 (Rs.copyFromSlice (List.take 8 h0) c ++ List.drop 8 h0))) lenB = c ++ lastB ++ lenB :=
  hdr_fill h0 c lastB lenB hh hc h1 h2

theorem auth_fill' (auth aad lastB lenB : Bytes) (ha : auth.length = aad.length + 8) (h1 : lastB.length = 4) (h2 : lenB.length = 4) :
    List.take (aad.length + 4) (List.take aad.length (Rs.copyFromSlice (List.take aad.length auth) aad ++ List.drop aad.length auth) ++
        Rs.copyFromSlice (List.take (aad.length + 4 - aad.length) (List.drop aad.length
          (Rs.copyFromSlice (List.take aad.length auth) aad ++ List.drop aad.length auth))) lastB ++
        List.drop (aad.length + 4) (Rs.copyFromSlice (List.take aad.length auth) aad ++ List.drop aad.length auth)) ++
      Rs.copyFromSlice (List.drop (aad.length + 4) (List.take aad.length (Rs.copyFromSlice (List.take aad.length auth) aad ++ List.drop aad.length auth) ++
        Rs.copyFromSlice (List.take (aad.length + 4 - aad.length) (List.drop aad.length
          (Rs.copyFromSlice (List.take aad.length auth) aad ++ List.drop aad.length auth))) lastB ++
        List.drop (aad.length + 4) (Rs.copyFromSlice (List.take aad.length auth) aad ++ List.drop aad.length auth))) lenB = aad ++ lastB ++ lenB :=
  auth_fill auth aad lastB lenB ha h1 h2

theorem auth_fill2' (auth aad lastB lenB : Bytes) (ha : auth.length = aad.length + 8) (hp : auth.take aad.length = aad)
    (h1 : lastB.length = 4) (h2 : lenB.length = 4) :
    List.take (aad.length + 4) (List.take aad.length auth ++
        Rs.copyFromSlice (List.take (aad.length + 4 - aad.length) (List.drop aad.length auth)) lastB ++
        List.drop (aad.length + 4) auth) ++
      Rs.copyFromSlice (List.drop (aad.length + 4) (List.take aad.length auth ++
        Rs.copyFromSlice (List.take (aad.length + 4 - aad.length) (List.drop aad.length auth)) lastB ++
        List.drop (aad.length + 4) auth)) lenB = aad ++ lastB ++ lenB :=
  auth_fill2 auth aad lastB lenB ha hp h1 h2

/-- the two per-chunk fields written with ONE `copy_from_slice` of the 8 bytes `tail` (`auth_data[aad.len()..]`), after the
    AAD prefix has been (re)written -/
theorem auth_fill1' (auth aad tail : Bytes) (ha : auth.length = aad.length + 8) (ht : tail.length = 8) :
    List.take aad.length (Rs.copyFromSlice (List.take aad.length auth) aad ++ List.drop aad.length auth) ++
      Rs.copyFromSlice (List.drop aad.length (Rs.copyFromSlice (List.take aad.length auth) aad ++ List.drop aad.length auth)) tail
      = aad ++ tail := by
  rw [auth_prefix auth aad ha, List.take_left' rfl, List.drop_left' rfl,
    copyFromSlice_eq _ _ (by rw [List.length_drop]; omega)]

/-- the same on a buffer that already starts with the AAD -/
theorem auth_fill1s' (auth aad tail : Bytes) (ha : auth.length = aad.length + 8) (hp : auth.take aad.length = aad)
    (ht : tail.length = 8) :
    List.take aad.length auth ++ Rs.copyFromSlice (List.drop aad.length auth) tail = aad ++ tail := by
  rw [hp, copyFromSlice_eq _ _ (by rw [List.length_drop]; omega)]

/-- normal form for "two adjacent fields of a buffer": `x ++ l[b..b+a] ++ l[b+a..]` is `x ++ l[b..]`, whether the fields
    were taken apart by indexing, by `split_at`, or not at all -/
theorem fields_join {α} (x l : List α) (a b c : Nat) (h : c = b + a) :
    x ++ List.take a (List.drop b l) ++ List.drop c l = x ++ List.drop b l := by
  subst h
  rw [List.append_assoc, ← List.drop_drop, List.take_append_drop]

theorem take_aad (aad x y : Bytes) : (aad ++ x ++ y).take aad.length = aad := by
  rw [List.append_assoc, List.take_left' rfl]

theorem take_aad1 (aad x : Bytes) : (aad ++ x).take aad.length = aad := List.take_left' rfl

/-- the state of `auth_data` when the loop is entered, whichever way the function prepares it: freshly allocated … -/
theorem auth_init_weak (aad : Bytes) : (List.replicate (aad.length + 8) (0 : UInt8)).length = aad.length + 8 :=
  List.length_replicate ..

/-- … or allocated and given its AAD prefix -/
theorem auth_init_strong (aad : Bytes) :
    (Rs.copyFromSlice ((List.replicate (aad.length + 8) (0 : UInt8)).take aad.length) aad ++
      (List.replicate (aad.length + 8) (0 : UInt8)).drop aad.length).take aad.length = aad := by
  rw [auth_prefix _ _ (List.length_replicate ..), List.take_left' rfl]

/-! ### normal forms for the control-flow glue -/

/-- `f(..)?; Ok(())` and `f(..)` as the last expression of a function are the same thing -/
@[simp] theorem requestion {α β} (r : Res) (a : α) (b : β) :
    (if (r != Res.ok) = true then some (r, a, b) else some (Res.ok, a, b)) = some (r, a, b) := by
  cases r <;> rfl

/-- `let mut b = false; if c { b = true; }` and `let b = c;` -/
@[simp] theorem ite_true_false (c : Bool) : (if c = true then true else false) = c := by cases c <;> rfl

/-- how the outcome of a generated `loop` relates to the model's result: `V` relates the tuple of loop variables at a
    `break` to the model's final source and sink -/
def LoopRel {σ : Type} (W : σ → Src → Snk → Prop) (x : Rs.LoopOut σ (Res × Src × Snk)) (y : Res × Src × Snk) : Prop :=
  match x with
  | .ret r => r = y
  | .brk st => ∃ s k, W st s k ∧ y = (Res.ok, s, k)
  | .outOfFuel => False

/-! ### file level: constants and result classes shared by both directions -/

open Generated

theorem scrypt_const (P : Prims) (pw salt : Bytes) : RsIO.scrypt P pw salt SCRYPT_N SCRYPT_R SCRYPT_P 32 = P.kdf pw salt := by
  simp [RsIO.scrypt, SCRYPT_N, SCRYPT_R, SCRYPT_P, scryptN, scryptR, scryptP]

/-- the same with the three constants written as literals (what `rs_unfold` leaves) -/
theorem scrypt_lit (P : Prims) (pw salt : Bytes) : RsIO.scrypt P pw salt 32768 8 1 32 = P.kdf pw salt := scrypt_const P pw salt

theorem hkdf_const (P : Prims) (ikm info : Bytes) : RsIO.hkdfSha256 P [] ikm info 32 = P.hkdfFile ikm info := by
  simp [RsIO.hkdfSha256]

theorem chunk_size_lit : (65536 : Nat) = chunkSize := rfl

/-- `Res.format` is how the hand-written model classifies `DecryptError::Other("Invalid file format.")`; the translation
    does not model messages, so it sees `Res.other` there -/
def collapseFormat : Res → Res
  | .format => .other
  | r => r

/-- how the hand-written model's pair (result class, sender key on success) reads as the Rust `Result<PublicKey, DecryptError>` -/
def keyResult : Res → Option Bytes → Except Res Bytes
  | _, some spk => .ok spk
  | r, none => .error (collapseFormat r)

end StreamSrc
end Kestrel
