/-
  Base64 (ct-codecs `Base64`, standard alphabet, mandatory canonical padding) as modelled in
  `KestrelModel/Prim/Base64.lean`:
    * `charOf` / `valOf` are mutually inverse on 0..63 and never produce '=';
    * `decode ∘ encode = some` for every byte string, and `decode` accepts *only* `encode`'s output
      (canonical: exactly one accepted text per byte string, whatever the length / padding);
    * output length and ASCII-ness of `encode`;
    * `Keyring.utf8` / `Keyring.asciiStr` are mutually inverse on ASCII data.
-/
import KestrelModel.Keyring
namespace Kestrel

/-! ### alphabet -/

set_option maxRecDepth 10000 in
theorem B64.valOf_charOf : ∀ v, v < 64 → B64.valOf (B64.charOf v) = some v := by decide

set_option maxRecDepth 10000 in
theorem B64.charOf_ne_pad : ∀ v, v < 64 → B64.charOf v ≠ 61 := by decide

set_option maxRecDepth 100000 in
private theorem B64.charOf_valOf_aux : ∀ n, n < 256 →
    ∀ v, B64.valOf (UInt8.ofNat n) = some v → B64.charOf v = UInt8.ofNat n ∧ v < 64 := by
  decide

theorem B64.charOf_valOf {c : UInt8} {v : Nat} (h : B64.valOf c = some v) : B64.charOf v = c ∧ v < 64 := by
  have := B64.charOf_valOf_aux c.toNat (UInt8.toNat_lt c) v
  rw [UInt8.ofNat_toNat] at this
  exact this h

/-- every alphabet character (indeed every value of `charOf`) is ASCII -/
theorem B64.charOf_lt (v : Nat) : B64.charOf v < 128 := by
  unfold B64.charOf
  split
  · rw [UInt8.lt_iff_toNat_lt, UInt8.toNat_ofNat']; simp; omega
  split
  · rw [UInt8.lt_iff_toNat_lt, UInt8.toNat_ofNat']; simp; omega
  split
  · rw [UInt8.lt_iff_toNat_lt, UInt8.toNat_ofNat']; simp; omega
  split <;> decide

theorem B64.ofNat_eq_of_toNat {a : UInt8} {n : Nat} (h : n = a.toNat) : UInt8.ofNat n = a := by
  subst h; exact UInt8.ofNat_toNat

theorem B64.toNat_ofNat_lt {n : Nat} (h : n < 256) : (UInt8.ofNat n).toNat = n := by
  rw [UInt8.toNat_ofNat']; omega

/-! ### decode ∘ encode -/

/-- arithmetic of one 3-byte / 4-sextet group -/
theorem B64.group3_arith (x y z n : Nat) (hx : x < 256) (hy : y < 256) (hz : z < 256)
    (hn : n = x * 65536 + y * 256 + z) :
    n / 262144 < 64 ∧ n / 4096 % 64 < 64 ∧ n / 64 % 64 < 64 ∧ n % 64 < 64 ∧
    n / 262144 * 4 + n / 4096 % 64 / 16 = x ∧
    n / 4096 % 64 % 16 * 16 + n / 64 % 64 / 4 = y ∧
    n / 64 % 64 % 4 * 64 + n % 64 = z ∧ n / 64 % 64 % 4 = z / 64 ∧ n / 4096 % 64 % 16 = y / 16 := by
  subst hn
  refine ⟨?_, ?_, ?_, ?_, ?_, ?_, ?_, ?_, ?_⟩ <;> omega

theorem B64.decode_group (v0 v1 v2 v3 : Nat) (rest : Bytes) (h0 : v0 < 64) (h1 : v1 < 64) (h2 : v2 < 64)
    (h3 : v3 < 64) :
    B64.decode (B64.charOf v0 :: B64.charOf v1 :: B64.charOf v2 :: B64.charOf v3 :: rest) =
      match B64.decode rest with
      | none => none
      | some r => some (UInt8.ofNat (v0 * 4 + v1 / 16) :: UInt8.ofNat (v1 % 16 * 16 + v2 / 4)
                        :: UInt8.ofNat (v2 % 4 * 64 + v3) :: r) := by
  simp only [B64.decode, B64.valOf_charOf _ h0, B64.valOf_charOf _ h1, B64.valOf_charOf _ h2, B64.valOf_charOf _ h3,
      if_neg (B64.charOf_ne_pad _ h2), if_neg (B64.charOf_ne_pad _ h3)]
  cases B64.decode rest <;> rfl

theorem B64.decode_group2 (v0 v1 v2 : Nat) (h0 : v0 < 64) (h1 : v1 < 64) (h2 : v2 < 64) (h4 : v2 % 4 = 0) :
    B64.decode [B64.charOf v0, B64.charOf v1, B64.charOf v2, 61] =
      some [UInt8.ofNat (v0 * 4 + v1 / 16), UInt8.ofNat (v1 % 16 * 16 + v2 / 4)] := by
  simp only [B64.decode, B64.valOf_charOf _ h0, B64.valOf_charOf _ h1, B64.valOf_charOf _ h2,
      if_neg (B64.charOf_ne_pad _ h2), h4, and_self, if_true]

theorem B64.decode_group1 (v0 v1 : Nat) (h0 : v0 < 64) (h1 : v1 < 64) (h4 : v1 % 16 = 0) :
    B64.decode [B64.charOf v0, B64.charOf v1, 61, 61] = some [UInt8.ofNat (v0 * 4 + v1 / 16)] := by
  simp only [B64.decode, B64.valOf_charOf _ h0, B64.valOf_charOf _ h1, h4, and_self, if_true]

/-- Decoding an encoding returns the bytes, for every byte string (all three length classes mod 3). -/
theorem B64.decode_encode (b : Bytes) : B64.decode (B64.encode b) = some b := by
  fun_induction B64.encode b with
  | case1 a b c rest n ih =>
    obtain ⟨h0, h1, h2, h3, ea, eb, ec, -, -⟩ :=
      B64.group3_arith a.toNat b.toNat c.toNat n (UInt8.toNat_lt a) (UInt8.toNat_lt b) (UInt8.toNat_lt c) rfl
    rw [B64.decode_group _ _ _ _ _ h0 h1 h2 h3, ih, ea, eb, ec]
    simp only [UInt8.ofNat_toNat]
  | case2 a b n =>
    obtain ⟨h0, h1, h2, -, ea, eb, -, e4, -⟩ :=
      B64.group3_arith a.toNat b.toNat 0 n (UInt8.toNat_lt a) (UInt8.toNat_lt b) (by omega) (by omega)
    rw [B64.decode_group2 _ _ _ h0 h1 h2 e4, ea, eb]
    simp only [UInt8.ofNat_toNat]
  | case3 a n =>
    obtain ⟨h0, h1, -, -, ea, -, -, -, e4⟩ :=
      B64.group3_arith a.toNat 0 0 n (UInt8.toNat_lt a) (by omega) (by omega) (by omega)
    rw [B64.decode_group1 _ _ h0 h1 e4, ea]
    simp only [UInt8.ofNat_toNat]
  | case4 => rfl

/-! ### encode ∘ decode: the decoder is canonical -/

/-- The decoder accepts exactly the encoder's output: if `s` decodes to `b` then `s` *is* `encode b`.
    (Covers non-alphabet characters, missing / superfluous / misplaced padding, non-zero trailing bits and
    trailing garbage: all are rejected.) -/
theorem B64.encode_decode (s b : Bytes) (h : B64.decode s = some b) : s = B64.encode b := by
  fun_induction B64.decode s generalizing b with
  | case1 => cases h; rfl
  | case2 c0 c1 c3 rest v0 v1 h1 h0 hc =>
    obtain ⟨e0, l0⟩ := B64.charOf_valOf h0
    obtain ⟨e1, l1⟩ := B64.charOf_valOf h1
    obtain ⟨hc3, hr, hm⟩ := hc
    cases h
    subst hc3 hr
    have ht := B64.toNat_ofNat_lt (n := v0 * 4 + v1 / 16) (by omega)
    simp only [B64.encode, ht]
    rw [← e0, ← e1]
    congr <;> omega
  | case5 c0 c1 c2 rest v0 v1 h1 h0 hn2 v2 h2 hc =>
    obtain ⟨e0, l0⟩ := B64.charOf_valOf h0
    obtain ⟨e1, l1⟩ := B64.charOf_valOf h1
    obtain ⟨e2, l2⟩ := B64.charOf_valOf h2
    obtain ⟨hr, hm⟩ := hc
    cases h
    subst hr
    have ht := B64.toNat_ofNat_lt (n := v0 * 4 + v1 / 16) (by omega)
    have hu := B64.toNat_ofNat_lt (n := v1 % 16 * 16 + v2 / 4) (by omega)
    simp only [B64.encode, ht, hu]
    rw [← e0, ← e1, ← e2]
    congr <;> omega
  | case9 c0 c1 c2 c3 rest v0 v1 h1 h0 hn2 v2 h2 hn3 v3 h3 r hr ih =>
    obtain ⟨e0, l0⟩ := B64.charOf_valOf h0
    obtain ⟨e1, l1⟩ := B64.charOf_valOf h1
    obtain ⟨e2, l2⟩ := B64.charOf_valOf h2
    obtain ⟨e3, l3⟩ := B64.charOf_valOf h3
    cases h
    have ht := B64.toNat_ofNat_lt (n := v0 * 4 + v1 / 16) (by omega)
    have hu := B64.toNat_ofNat_lt (n := v1 % 16 * 16 + v2 / 4) (by omega)
    have hw := B64.toNat_ofNat_lt (n := v2 % 4 * 64 + v3) (by omega)
    simp only [B64.encode, ht, hu, hw]
    rw [← e0, ← e1, ← e2, ← e3, ← ih r hr]
    congr <;> omega
  | _ => cases h

/-- `decode` is injective on what it accepts -/
theorem B64.decode_inj (s s' b : Bytes) (h : B64.decode s = some b) (h' : B64.decode s' = some b) : s = s' := by
  rw [B64.encode_decode s b h, B64.encode_decode s' b h']

theorem B64.encode_inj (b b' : Bytes) (h : B64.encode b = B64.encode b') : b = b' := by
  have := B64.decode_encode b
  rw [h, B64.decode_encode] at this
  exact (Option.some.inj this).symm

/-! ### shape of the encoder's output -/

theorem B64.encode_length (b : Bytes) : (B64.encode b).length = 4 * ((b.length + 2) / 3) := by
  fun_induction B64.encode b with
  | case1 a b c rest n ih => simp only [List.length_cons, ih]; omega
  | case2 => simp only [List.length_cons, List.length_nil]
  | case3 => simp only [List.length_cons, List.length_nil]
  | case4 => rfl

theorem B64.encode_ascii (b : Bytes) : ∀ c ∈ B64.encode b, c < 128 := by
  fun_induction B64.encode b with
  | case1 a b c rest n ih =>
    intro x hx
    simp only [List.mem_cons] at hx
    rcases hx with h | h | h | h | h
    · subst h; exact B64.charOf_lt _
    · subst h; exact B64.charOf_lt _
    · subst h; exact B64.charOf_lt _
    · subst h; exact B64.charOf_lt _
    · exact ih x h
  | case2 a b n =>
    intro x hx
    simp only [List.mem_cons, List.mem_nil_iff, or_false] at hx
    rcases hx with h | h | h | h
    · subst h; exact B64.charOf_lt _
    · subst h; exact B64.charOf_lt _
    · subst h; exact B64.charOf_lt _
    · subst h; decide
  | case3 a n =>
    intro x hx
    simp only [List.mem_cons, List.mem_nil_iff, or_false] at hx
    rcases hx with h | h | h | h
    · subst h; exact B64.charOf_lt _
    · subst h; exact B64.charOf_lt _
    · subst h; decide
    · subst h; decide
  | case4 => intro x hx; cases hx

/-! ### `utf8` / `asciiStr` -/

theorem Keyring.utf8_cons (c : Char) (s : Keyring.Str) :
    Keyring.utf8 (c :: s) = String.utf8EncodeChar c ++ Keyring.utf8 s := by
  simp [Keyring.utf8]

theorem Keyring.asciiStr_length (b : Bytes) : (Keyring.asciiStr b).length = b.length := by
  simp [Keyring.asciiStr]

theorem Keyring.val_ofNat_ascii (n : Nat) (h : n < 128) : (Char.ofNat n).val.toNat = n := by
  have hv : n.isValidChar := Or.inl (by omega)
  unfold Char.ofNat
  rw [dif_pos hv]
  rfl

theorem Keyring.utf8EncodeChar_ofNat_ascii (c : UInt8) (h : c < 128) :
    String.utf8EncodeChar (Char.ofNat c.toNat) = [c] := by
  have hlt : c.toNat < 128 := by rw [UInt8.lt_iff_toNat_lt] at h; exact h
  have hv := Keyring.val_ofNat_ascii c.toNat hlt
  unfold String.utf8EncodeChar
  simp only [hv]
  rw [if_pos (by omega), UInt8.ofNat_toNat]

/-- ASCII bytes, read as a string, re-encode in UTF-8 to themselves -/
theorem Keyring.utf8_asciiStr (b : Bytes) (h : ∀ c ∈ b, c < 128) : Keyring.utf8 (Keyring.asciiStr b) = b := by
  induction b with
  | nil => rfl
  | cons x xs ih =>
    have hx := h x (List.mem_cons_self ..)
    have := ih (fun c hc => h c (List.mem_cons_of_mem _ hc))
    simp only [Keyring.asciiStr, List.map_cons] at this ⊢
    rw [Keyring.utf8_cons, Keyring.utf8EncodeChar_ofNat_ascii x hx, this]; rfl

/-- a character all of whose UTF-8 bytes are < 128 is ASCII and encodes to the single byte of its code point
    (every byte of a multi-byte encoding is ≥ 128; the lead byte suffices) -/
theorem Keyring.utf8EncodeChar_ascii (ch : Char) (h : ∀ c ∈ String.utf8EncodeChar ch, c < 128) :
    String.utf8EncodeChar ch = [UInt8.ofNat ch.toNat] ∧ ch.toNat < 128 := by
  have hv : ch.val.toNat = ch.toNat := rfl
  by_cases h1 : ch.toNat ≤ 0x7f
  · refine ⟨?_, by omega⟩
    unfold String.utf8EncodeChar
    simp only [hv]
    rw [if_pos h1]
  · exfalso
    unfold String.utf8EncodeChar at h
    simp only [hv] at h
    rw [if_neg h1] at h
    split at h
    · have := h _ (List.mem_cons_self ..)
      rw [UInt8.lt_iff_toNat_lt, B64.toNat_ofNat_lt (by omega)] at this
      simp at this; omega
    split at h
    · have := h _ (List.mem_cons_self ..)
      rw [UInt8.lt_iff_toNat_lt, B64.toNat_ofNat_lt (by omega)] at this
      simp at this; omega
    · have := h _ (List.mem_cons_self ..)
      rw [UInt8.lt_iff_toNat_lt, B64.toNat_ofNat_lt (by omega)] at this
      simp at this; omega

/-- a string whose UTF-8 bytes are all < 128 is the ASCII reading of those bytes -/
theorem Keyring.asciiStr_utf8 (s : Keyring.Str) (h : ∀ c ∈ Keyring.utf8 s, c < 128) :
    Keyring.asciiStr (Keyring.utf8 s) = s := by
  induction s with
  | nil => rfl
  | cons ch t ih =>
    rw [Keyring.utf8_cons] at h ⊢
    obtain ⟨he, hlt⟩ := Keyring.utf8EncodeChar_ascii ch (fun c hc => h c (List.mem_append_left _ hc))
    have := ih (fun c hc => h c (List.mem_append_right _ hc))
    rw [he]
    simp only [Keyring.asciiStr, List.cons_append, List.nil_append, List.map_cons] at this ⊢
    rw [this, B64.toNat_ofNat_lt (by omega), Char.ofNat_toNat]

/-! ### base64 text as a string -/

/-- the string form of an encoding decodes back to the bytes -/
theorem B64.decode_utf8_asciiStr_encode (b : Bytes) :
    B64.decode (Keyring.utf8 (Keyring.asciiStr (B64.encode b))) = some b := by
  rw [Keyring.utf8_asciiStr _ (B64.encode_ascii b), B64.decode_encode]

/-- a string decodes to `b` only if it is the string form of `encode b` -/
theorem B64.str_canonical (s : Keyring.Str) (b : Bytes) (h : B64.decode (Keyring.utf8 s) = some b) :
    s = Keyring.asciiStr (B64.encode b) := by
  have he := B64.encode_decode _ _ h
  have ha : ∀ c ∈ Keyring.utf8 s, c < 128 := by rw [he]; exact B64.encode_ascii b
  rw [← he, Keyring.asciiStr_utf8 s ha]

end Kestrel
