/-
  Locked private keys (`lockPrivateKey` / `unlockPrivateKey`) and checksummed public keys
  (`encodePk` / `decodePk`): lengths of the derived key and of the blobs, round trips, and strictness
  ("what is accepted is exactly what the encoder produces").  Functional facts only; no security content.
-/
import KestrelProofs.Base64
import KestrelProofs.Aead
import KestrelProofs.Prims
namespace Kestrel
open Generated

/-! ### the scrypt-derived key is 32 bytes -/

theorem pbkdf2Block_one (pw salt : Bytes) (i : Nat) :
    pbkdf2Block pw salt 1 i = hmacSha256 pw (salt ++ natBE 4 i) := by
  simp [pbkdf2Block, pbkdf2Block.go]

/-- PBKDF2 with one iteration and a 32-byte output is a single HMAC block -/
theorem pbkdf2Sha256_one_32_length (pw salt : Bytes) : (pbkdf2Sha256 pw salt 1 32).length = 32 := by
  have h : pbkdf2Sha256 pw salt 1 32 = (pbkdf2Block pw salt 1 1 ++ []).take 32 := rfl
  rw [h, pbkdf2Block_one, List.append_nil, List.length_take, hmacSha256_length]
  rfl

/-- scrypt's final step is PBKDF2(pw, mixed, 1, dkLen); the mixing (whatever N, r, p) does not affect the length -/
theorem Scrypt.Spec.scrypt_32_length (pw salt : Bytes) (N r p : Nat) :
    (Scrypt.Spec.scrypt pw salt N r p 32).length = 32 :=
  pbkdf2Sha256_one_32_length pw _

theorem Keyring.lockKdf_length (pw salt : Bytes) : (Keyring.lockKdf pw salt).length = 32 :=
  Scrypt.Spec.scrypt_32_length pw salt _ _ _

theorem privateKeyVersion_length : privateKeyVersion.length = 4 := rfl

theorem zeros_length (n : Nat) : (zeros n).length = n := List.length_replicate ..

/-! ### layout of the 84-byte blob: version (4) ‖ salt (32) ‖ sealed key (48) -/

theorem blob_take4 (ver salt ct : Bytes) (hv : ver.length = 4) : (ver ++ salt ++ ct).take 4 = ver := by
  rw [List.append_assoc, ← hv, List.take_left']; rfl

theorem blob_salt (ver salt ct : Bytes) (hv : ver.length = 4) (hs : salt.length = 32) :
    ((ver ++ salt ++ ct).drop 4).take 32 = salt := by
  rw [List.append_assoc, ← hv, List.drop_left' rfl, ← hs, List.take_left' rfl]

theorem blob_ct (ver salt ct : Bytes) (hv : ver.length = 4) (hs : salt.length = 32) :
    (ver ++ salt ++ ct).drop 36 = ct := by
  have : (ver ++ salt).length = 36 := by rw [List.length_append, hv, hs]
  rw [← this, List.drop_left' rfl]

theorem blob_split (b : Bytes) : b = b.take 4 ++ (b.drop 4).take 32 ++ b.drop 36 := by
  have h : b.drop 36 = (b.drop 4).drop 32 := by rw [List.drop_drop]
  rw [h, List.append_assoc, List.take_append_drop, List.take_append_drop]

theorem lockedBlob_length (sk pw salt : Bytes) (hsk : sk.length = 32) (hs : salt.length = 32) :
    (privateKeyVersion ++ salt ++ aeadSeal (Keyring.lockKdf pw salt) (zeros 12) privateKeyVersion sk).length = 84 := by
  rw [List.length_append, List.length_append, privateKeyVersion_length, hs,
    aeadSeal_length _ _ _ _ (Keyring.lockKdf_length pw salt) (zeros_length 12), hsk]

/-! ### lock / unlock -/

theorem Keyring.decode_lockPrivateKey (sk pw salt : Bytes) :
    B64.decode (Keyring.utf8 (Keyring.lockPrivateKey sk pw salt)) =
      some (privateKeyVersion ++ salt ++ aeadSeal (Keyring.lockKdf pw salt) (zeros 12) privateKeyVersion sk) :=
  B64.decode_utf8_asciiStr_encode _

/-- what `unlockPrivateKey` does once the text has decoded to an 84-byte blob with the right version -/
theorem Keyring.unlockPrivateKey_of_decode (s : Keyring.Str) (pw b : Bytes)
    (hd : B64.decode (Keyring.utf8 s) = some b) (hl : b.length = 84) (hv : b.take 4 = privateKeyVersion) :
    Keyring.unlockPrivateKey s pw =
      match aeadOpen (Keyring.lockKdf pw ((b.drop 4).take 32)) (zeros 12) (b.take 4) (b.drop 36) with
      | none => .error .skDecrypt
      | some sk => .ok sk := by
  unfold Keyring.unlockPrivateKey
  rw [hd]
  simp only []
  rw [if_neg (by rw [hl]; decide), if_neg (by rw [hv]; exact fun h => h rfl)]
  cases aeadOpen (Keyring.lockKdf pw ((b.drop 4).take 32)) (zeros 12) (b.take 4) (b.drop 36) <;> rfl

theorem Keyring.unlock_lock (sk pw salt : Bytes) (hsk : sk.length = 32) (hs : salt.length = 32) :
    Keyring.unlockPrivateKey (Keyring.lockPrivateKey sk pw salt) pw = .ok sk := by
  have hv := privateKeyVersion_length
  rw [Keyring.unlockPrivateKey_of_decode _ pw _ (Keyring.decode_lockPrivateKey sk pw salt)
    (lockedBlob_length sk pw salt hsk hs) (blob_take4 _ _ _ hv)]
  rw [blob_take4 _ _ _ hv, blob_salt _ _ _ hv hs, blob_ct _ _ _ hv hs,
    aeadOpen_aeadSeal _ _ _ _ (Keyring.lockKdf_length pw salt) (zeros_length 12)]

/-- inversion of a successful unlock -/
theorem Keyring.unlock_ok_inv (s : Keyring.Str) (pw sk : Bytes) (h : Keyring.unlockPrivateKey s pw = .ok sk) :
    ∃ b, B64.decode (Keyring.utf8 s) = some b ∧ b.length = 84 ∧ b.take 4 = privateKeyVersion ∧
      aeadOpen (Keyring.lockKdf pw ((b.drop 4).take 32)) (zeros 12) privateKeyVersion (b.drop 36) = some sk := by
  unfold Keyring.unlockPrivateKey at h
  split at h
  · cases h
  · rename_i b hd
    simp only [] at h
    split at h
    · cases h
    · rename_i hl
      split at h
      · cases h
      · rename_i hv
        have hl' : b.length = 84 := Decidable.not_not.mp hl
        have hv' : b.take 4 = privateKeyVersion := Decidable.not_not.mp hv
        rw [hv'] at h
        split at h
        · cases h
        · rename_i sk' ho
          cases h
          exact ⟨b, hd, hl', hv', ho⟩

/-- The unlocker is strict: a text that unlocks to `sk` under `pw` is exactly the locking of `sk` under `pw`
    with the salt stored in it. -/
theorem Keyring.unlock_strict (s : Keyring.Str) (pw sk : Bytes) (h : Keyring.unlockPrivateKey s pw = .ok sk) :
    ∃ salt, salt.length = 32 ∧ sk.length = 32 ∧ s = Keyring.lockPrivateKey sk pw salt := by
  obtain ⟨b, hd, hl, hv, ho⟩ := Keyring.unlock_ok_inv s pw sk h
  have hk := Keyring.lockKdf_length pw ((b.drop 4).take 32)
  have hct := aeadOpen_sound _ _ _ _ _ hk (zeros_length 12) ho
  have hlen := aeadOpen_length _ _ _ _ _ hk (zeros_length 12) ho
  refine ⟨(b.drop 4).take 32, ?_, ?_, ?_⟩
  · rw [List.length_take, List.length_drop, hl]; rfl
  · rw [List.length_drop, hl] at hlen; omega
  · have hb : b = privateKeyVersion ++ (b.drop 4).take 32 ++
        aeadSeal (Keyring.lockKdf pw ((b.drop 4).take 32)) (zeros 12) privateKeyVersion sk := by
      rw [← hct, ← hv]; exact blob_split b
    rw [B64.str_canonical s b hd]
    unfold Keyring.lockPrivateKey
    simp only []
    rw [← hb]

/-! ### public keys with checksum -/

theorem pkBlob_length (k : Bytes) (hk : k.length = 32) : (k ++ (sha256 k).take 4).length = 36 := by
  rw [List.length_append, List.length_take, sha256_length, hk]; rfl

theorem Keyring.decode_encodePk (k : Bytes) :
    B64.decode (Keyring.utf8 (Keyring.encodePk k)) = some (k ++ (sha256 k).take 4) :=
  B64.decode_utf8_asciiStr_encode _

theorem Keyring.decodePk_encodePk (k : Bytes) (hk : k.length = 32) :
    Keyring.decodePk (Keyring.encodePk k) = .ok k := by
  unfold Keyring.decodePk
  rw [Keyring.decode_encodePk]
  simp only []
  have ht : (k ++ (sha256 k).take 4).take 32 = k := by rw [← hk, List.take_left' rfl]
  have hd : (k ++ (sha256 k).take 4).drop 32 = (sha256 k).take 4 := by rw [← hk, List.drop_left' rfl]
  rw [if_neg (by rw [pkBlob_length k hk]; decide), ht, hd, if_pos rfl]

theorem Keyring.decodePk_ok_inv (s : Keyring.Str) (k : Bytes) (h : Keyring.decodePk s = .ok k) :
    ∃ b, B64.decode (Keyring.utf8 s) = some b ∧ b.length = 36 ∧ k = b.take 32 ∧
      b.drop 32 = (sha256 (b.take 32)).take 4 := by
  unfold Keyring.decodePk at h
  split at h
  · cases h
  · rename_i b hd
    simp only [] at h
    split at h
    · cases h
    · rename_i hl
      split at h
      · rename_i hc
        cases h
        exact ⟨b, hd, Decidable.not_not.mp hl, rfl, hc⟩
      · cases h

theorem Keyring.decodePk_strict (s : Keyring.Str) (k : Bytes) (h : Keyring.decodePk s = .ok k) :
    k.length = 32 ∧ s = Keyring.encodePk k := by
  obtain ⟨b, hd, hl, hk, hc⟩ := Keyring.decodePk_ok_inv s k h
  refine ⟨by rw [hk, List.length_take, hl]; rfl, ?_⟩
  rw [B64.str_canonical s b hd]
  unfold Keyring.encodePk
  rw [hk, ← hc, List.take_append_drop]

end Kestrel
