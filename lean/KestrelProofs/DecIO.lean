/-
  Refinement between the two levels of `decrypt_chunks`:
  `decLoop` (pure, on the complete input) and `decLoopIO` (the same control flow over a scripted source and sink).

  One iteration is split into a read phase (`readRecordIO` ↔ `parse1`) and a write phase (`writeChunk`);
  the theorems are inductions over the fuel that use only the two phase specifications.
-/
import KestrelModel.Chunks
import KestrelProofs.IOBasics
namespace Kestrel

/-! ### one iteration, pure level -/

/-- outcome of parsing and opening the first record of a byte string -/
inductive POut
  | fail (e : Res)
  | chunk (pt : Bytes) (last : Bool) (rest : Bytes)

/-- the first record of `inp`: the checks of one `decLoop` iteration, in order -/
def parse1 (A : Aead) (key aad : Bytes) (cs ctr : Nat) (inp : Bytes) : POut :=
  if inp.length < 16 then .fail .ioRead else
  if beVal ((inp.take 16).drop 12) > cs then .fail .chunkLen else
  if (inp.drop 16).length < beVal ((inp.take 16).drop 12) + 16 then .fail .ioRead else
  match A.dec key ctr (aad ++ ((inp.take 16).drop 8).take 4 ++ (inp.take 16).drop 12)
      ((inp.drop 16).take (beVal ((inp.take 16).drop 12) + 16)) with
  | none => .fail .auth
  | some pt => .chunk pt (beVal (((inp.take 16).drop 8).take 4) == 1) ((inp.drop 16).drop (beVal ((inp.take 16).drop 12) + 16))

theorem decLoop_succ (A : Aead) (key aad : Bytes) (cs fuel ctr : Nat) (inp : Bytes) :
    decLoop A key aad cs (fuel+1) ctr inp =
      match parse1 A key aad cs ctr inp with
      | .fail e => ([], e)
      | .chunk pt last rest' =>
        if last then (if rest'.length ≠ 0 then ([], .unexpectedData) else ([pt], .ok))
        else (pt :: (decLoop A key aad cs fuel (ctr+1) rest').1, (decLoop A key aad cs fuel (ctr+1) rest').2) := by
  simp only [decLoop, parse1]
  split
  · rfl
  · split
    · rfl
    · split
      · rfl
      · split <;> rename_i h <;> simp only [h]

/-- a record is at least 32 bytes long -/
theorem parse1_chunk_len {A : Aead} {key aad : Bytes} {cs ctr : Nat} {inp pt rest' : Bytes} {last : Bool}
    (h : parse1 A key aad cs ctr inp = .chunk pt last rest') : rest'.length + 32 ≤ inp.length := by
  unfold parse1 at h
  split at h
  · simp at h
  · split at h
    · simp at h
    · split at h
      · simp at h
      · split at h
        · simp at h
        · simp only [POut.chunk.injEq] at h
          obtain ⟨_, _, rfl⟩ := h
          simp only [List.length_drop] at *
          omega

/-- with a lawful AEAD and a 32-byte key, a record occupies exactly `32 + |plaintext|` bytes -/
theorem parse1_chunk_len_lawful {A : Aead} (hA : A.Lawful) {key aad : Bytes} (hk : key.length = 32) {cs ctr : Nat}
    {inp pt rest' : Bytes} {last : Bool}
    (h : parse1 A key aad cs ctr inp = .chunk pt last rest') : inp.length = 32 + pt.length + rest'.length := by
  unfold parse1 at h
  split at h
  · simp at h
  · split at h
    · simp at h
    · split at h
      · simp at h
      · split at h
        · simp at h
        · rename_i pt' hdec
          simp only [POut.chunk.injEq] at h
          obtain ⟨rfl, _, rfl⟩ := h
          have h1 := hA.dec_sound _ _ _ _ _ hk hdec
          have h2 := congrArg List.length h1
          rw [hA.enc_length _ _ _ _ hk] at h2
          simp only [List.length_take, List.length_drop] at *
          omega

/-- the pure loop does not depend on its fuel once the fuel covers the input -/
theorem decLoop_fuel_succ (A : Aead) (key aad : Bytes) (cs : Nat) : ∀ (fuel ctr : Nat) (inp : Bytes), inp.length ≤ fuel →
    decLoop A key aad cs (fuel+1) ctr inp = decLoop A key aad cs fuel ctr inp := by
  intro fuel
  induction fuel with
  | zero =>
    intro ctr inp h
    have : inp.length < 16 := by omega
    simp [decLoop, this]
  | succ f ih =>
    intro ctr inp h
    rw [decLoop_succ, decLoop_succ A key aad cs f]
    split
    · rfl
    · rename_i pt last rest' hp
      have := parse1_chunk_len hp
      rw [ih (ctr+1) rest' (by omega)]

theorem decLoop_fuel_irrel (A : Aead) (key aad : Bytes) (cs : Nat) (ctr : Nat) (inp : Bytes) :
    ∀ (fuel : Nat), inp.length ≤ fuel → decLoop A key aad cs fuel ctr inp = decLoop A key aad cs inp.length ctr inp := by
  intro fuel h
  induction fuel with
  | zero => have : inp.length = 0 := by omega
            rw [this]
  | succ f ih =>
    rcases Nat.lt_or_ge inp.length (f+1) with hl | hl
    · rw [decLoop_fuel_succ A key aad cs f ctr inp (by omega), ih (by omega)]
    · have : inp.length = f + 1 := by omega
      rw [this]

/-! ### one iteration, I/O level -/

/-- outcome of the read phase of one `decLoopIO` iteration -/
inductive ROut
  | fail (e : Res)
  | chunk (pt : Bytes) (last : Bool)

/-- read phase: header, body, open, trailing-data probe -/
def readRecordIO (A : Aead) (key aad : Bytes) (cs ctr : Nat) (s : Src) : ROut × Src :=
  match Src.readExact (s.fuel 16) s 16 with
  | (none, s1) => (.fail .ioRead, s1)
  | (some hdr, s1) =>
    if beVal (hdr.drop 12) > cs then (.fail .chunkLen, s1) else
    match Src.readExact (s1.fuel (beVal (hdr.drop 12) + 16)) s1 (beVal (hdr.drop 12) + 16) with
    | (none, s2) => (.fail .ioRead, s2)
    | (some body, s2) =>
      match A.dec key ctr (aad ++ (hdr.drop 8).take 4 ++ hdr.drop 12) body with
      | none => (.fail .auth, s2)
      | some pt =>
        if beVal ((hdr.drop 8).take 4) == 1 then
          match s2.read 1 with
          | (.err, s3) => (.fail .ioRead, s3)
          | (.interrupted, s3) => (.fail .ioRead, s3)
          | (.got b, s3) => if b.length ≠ 0 then (.fail .unexpectedData, s3) else (.chunk pt true, s3)
        else (.chunk pt false, s2)

/-- write phase: `write_all` then `flush` -/
def writeChunk (k : Snk) (at_ : Nat × Nat) (pt : Bytes) : Bool × Snk :=
  match Snk.writeAll at_ (k.wfuel pt) k pt with
  | (false, k1) => (false, k1)
  | (true, k1) => k1.flush

theorem decLoopIO_succ (A : Aead) (key aad : Bytes) (cs fuel ctr : Nat) (s : Src) (k : Snk) :
    decLoopIO A key aad cs (fuel+1) ctr s k =
      match readRecordIO A key aad cs ctr s with
      | (.fail e, s3) => (e, s3, k)
      | (.chunk pt last, s3) =>
        match writeChunk k (s3.pos, s3.nreads) pt with
        | (false, k2) => (.ioWrite, s3, k2)
        | (true, k2) => if last then (.ok, s3, k2) else decLoopIO A key aad cs fuel (ctr+1) s3 k2 := by
  simp only [decLoopIO, readRecordIO, writeChunk]
  generalize Src.readExact (s.fuel 16) s 16 = x
  obtain ⟨o, s1⟩ := x
  cases o with
  | none => rfl
  | some hdr =>
    simp only
    split
    · rfl
    · generalize Src.readExact (s1.fuel (beVal (hdr.drop 12) + 16)) s1 (beVal (hdr.drop 12) + 16) = y
      obtain ⟨o2, s2⟩ := y
      cases o2 with
      | none => rfl
      | some body =>
        simp only
        cases A.dec key ctr (aad ++ (hdr.drop 8).take 4 ++ hdr.drop 12) body with
        | none => rfl
        | some pt =>
          simp only
          cases hl : (beVal ((hdr.drop 8).take 4) == 1) with
          | false =>
            simp only [Bool.false_eq_true, if_false]
            generalize Snk.writeAll (s2.pos, s2.nreads) (k.wfuel pt) k pt = w
            obtain ⟨r, k1⟩ := w
            cases r with
            | false => rfl
            | true =>
              simp only
              generalize k1.flush = z
              obtain ⟨r2, k2⟩ := z
              cases r2 <;> rfl
          | true =>
            simp only [if_true]
            generalize s2.read 1 = p
            obtain ⟨rr, s3⟩ := p
            cases rr with
            | err => rfl
            | interrupted => rfl
            | got b =>
              simp only
              by_cases hb : b.length = 0
              · simp only [hb, ne_eq, not_true_eq_false, if_false]
                generalize Snk.writeAll (s3.pos, s3.nreads) (k.wfuel pt) k pt = w
                obtain ⟨r, k1⟩ := w
                cases r with
                | false => rfl
                | true =>
                  simp only
                  generalize k1.flush = z
                  obtain ⟨r2, k2⟩ := z
                  cases r2 <;> rfl
              · simp only [hb, ne_eq, not_false_eq_true, if_true]

/-! ### specification of the two phases -/

/-- **Read phase, ALL scripts.** Whatever the source does, what the read phase returns is what `parse1` computes on the
    data that is really there — or an `ioRead`. Specifically:
    * a chunk is returned only if `parse1` yields the same chunk; the source then stands exactly at the end of the record
      (for a final chunk: the probe returned 0 bytes; unless the script forged an end-of-stream, no data remains);
    * `chunkLen` / `auth` / `unexpectedData` are returned only if the pure level says the same;
    * `ioRead` on a benign script means the data is truncated, or the un-retried probe read was interrupted. -/
theorem readRecordIO_spec {A : Aead} {key aad : Bytes} {cs ctr : Nat} {s s3 : Src} {o : ROut}
    (h : readRecordIO A key aad cs ctr s = (o, s3)) :
    (∃ pre, s.script = pre ++ s3.script) ∧
    (∀ pt last, o = .chunk pt last → ∃ rest', parse1 A key aad cs ctr s.inp = .chunk pt last rest' ∧ s3.inp = rest' ∧
        s3.pos + rest'.length = s.pos + s.inp.length ∧ (last = true → s.noFalseEof → rest' = [])) ∧
    (∀ e, o = .fail e →
        ((e = .chunkLen ∨ e = .auth) ∧ parse1 A key aad cs ctr s.inp = .fail e) ∨
        (e = .unexpectedData ∧ ∃ pt rest', parse1 A key aad cs ctr s.inp = .chunk pt true rest' ∧ rest' ≠ []) ∨
        (e = .ioRead ∧ (s.benign → parse1 A key aad cs ctr s.inp = .fail .ioRead ∨
            (∃ pt rest', parse1 A key aad cs ctr s.inp = .chunk pt true rest' ∧ s3.inp = rest' ∧
              ∃ pre, s.script = pre ++ .errInterrupted :: s3.script)))) := by
  unfold readRecordIO at h
  split at h
  · -- header read failed
    rename_i s1 h16
    simp only [Prod.mk.injEq] at h; obtain ⟨rfl, rfl⟩ := h
    obtain ⟨_, _, _, _, _, hsc⟩ := Src.readExact_frame _ _ _ _ _ h16
    refine ⟨hsc, fun pt last hc => by simp at hc, ?_⟩
    intro e he
    simp only [ROut.fail.injEq] at he; subst he
    refine Or.inr (Or.inr ⟨rfl, fun hb => Or.inl ?_⟩)
    have hl := Src.readExact_none_benign hb (Nat.le_refl _) h16
    simp only [parse1, if_pos hl]
  · rename_i hdr s1 h16
    obtain ⟨hh, hhl, hi1, hp1, hn1, hsc1⟩ := Src.readExact_some _ _ _ _ _ h16
    have hlen16 : ¬ s.inp.length < 16 := Nat.not_lt.mpr (Src.readExact_some_len h16)
    subst hh
    split at h
    · -- chunk length too large
      rename_i hcs
      simp only [Prod.mk.injEq] at h; obtain ⟨rfl, rfl⟩ := h
      refine ⟨hsc1, fun pt last hc => by simp at hc, ?_⟩
      intro e he
      simp only [ROut.fail.injEq] at he; subst he
      refine Or.inl ⟨Or.inl rfl, ?_⟩
      simp only [parse1, if_neg hlen16, if_pos hcs]
    · rename_i hcs
      split at h
      · -- body read failed
        rename_i s2 hbody
        simp only [Prod.mk.injEq] at h; obtain ⟨rfl, rfl⟩ := h
        obtain ⟨_, _, _, _, _, hsc2⟩ := Src.readExact_frame _ _ _ _ _ hbody
        refine ⟨suffix_trans hsc1 hsc2, fun pt last hc => by simp at hc, ?_⟩
        intro e he
        simp only [ROut.fail.injEq] at he; subst he
        refine Or.inr (Or.inr ⟨rfl, fun hb => Or.inl ?_⟩)
        have hl := Src.readExact_none_benign (Src.benign_of_suffix hb hsc1) (Nat.le_refl _) hbody
        rw [hi1] at hl
        simp only [parse1, if_neg hlen16, if_neg hcs, if_pos hl]
      · rename_i body s2 hbody
        obtain ⟨hb, hbl, hi2, hp2, hn2, hsc2⟩ := Src.readExact_some _ _ _ _ _ hbody
        have hlenb : ¬ (s.inp.drop 16).length < beVal ((s.inp.take 16).drop 12) + 16 := by
          have := Src.readExact_some_len hbody
          rw [hi1] at this; omega
        rw [hi1] at hb hi2
        subst hb
        have hsc12 := suffix_trans hsc1 hsc2
        have hpos2 : s2.pos + ((s.inp.drop 16).drop (beVal ((s.inp.take 16).drop 12) + 16)).length = s.pos + s.inp.length := by
          simp only [List.length_drop] at hlenb ⊢
          omega
        split at h
        · -- authentication failed
          rename_i hdec
          simp only [Prod.mk.injEq] at h; obtain ⟨rfl, rfl⟩ := h
          refine ⟨hsc12, fun pt last hc => by simp at hc, ?_⟩
          intro e he
          simp only [ROut.fail.injEq] at he; subst he
          refine Or.inl ⟨Or.inr rfl, ?_⟩
          simp only [parse1, if_neg hlen16, if_neg hcs, if_neg hlenb, hdec]
        · rename_i pt hdec
          split at h
          · -- final chunk: probe
            rename_i hlast
            have hparse : parse1 A key aad cs ctr s.inp =
                .chunk pt true ((s.inp.drop 16).drop (beVal ((s.inp.take 16).drop 12) + 16)) := by
              simp only [parse1, if_neg hlen16, if_neg hcs, if_neg hlenb, hdec, hlast]
            split at h
            · -- hard error on the probe
              rename_i s3' hrd
              simp only [Prod.mk.injEq] at h; obtain ⟨rfl, rfl⟩ := h
              obtain ⟨_, _, _, hsc3⟩ := Src.read_err hrd
              refine ⟨suffix_trans hsc12 ⟨[.errOther], by rw [hsc3]; rfl⟩, fun pt last hc => by simp at hc, ?_⟩
              intro e he
              simp only [ROut.fail.injEq] at he; subst he
              refine Or.inr (Or.inr ⟨rfl, fun hb => ?_⟩)
              have hb2 := Src.benign_of_suffix hb hsc12
              rcases hb2 .errOther (by rw [hsc3]; simp) with ⟨n, hn, _⟩ | hn <;> simp at hn
            · -- probe interrupted
              rename_i s3' hrd
              simp only [Prod.mk.injEq] at h; obtain ⟨rfl, rfl⟩ := h
              obtain ⟨hi3, _, _, hsc3⟩ := Src.read_interrupted hrd
              obtain ⟨pre, hpre⟩ := hsc12
              refine ⟨⟨pre ++ [.errInterrupted], by rw [hpre, hsc3]; simp⟩, fun pt last hc => by simp at hc, ?_⟩
              intro e he
              simp only [ROut.fail.injEq] at he; subst he
              exact Or.inr (Or.inr ⟨rfl, fun _ => Or.inr ⟨pt, _, hparse, by rw [hi3, hi2], pre, by rw [hpre, hsc3]⟩⟩)
            · rename_i b s3' hrd
              obtain ⟨m, _, hm, hbm, hbml, hi3, hp3, _, hsc3⟩ := Src.read_got hrd
              split at h
              · -- trailing data
                rename_i hbne
                simp only [Prod.mk.injEq] at h; obtain ⟨rfl, rfl⟩ := h
                refine ⟨suffix_trans hsc12 hsc3, fun pt last hc => by simp at hc, ?_⟩
                intro e he
                simp only [ROut.fail.injEq] at he; subst he
                refine Or.inr (Or.inl ⟨rfl, pt, _, hparse, ?_⟩)
                intro hnil
                rw [hi2, hnil] at hm
                simp only [List.length_nil] at hm
                omega
              · -- clean end
                rename_i hbe
                simp only [Prod.mk.injEq] at h; obtain ⟨rfl, rfl⟩ := h
                have hm0 : m = 0 := by omega
                subst hm0
                refine ⟨suffix_trans hsc12 hsc3, ?_, fun e he => by simp at he⟩
                intro pt' last hc
                simp only [ROut.chunk.injEq] at hc
                obtain ⟨rfl, rfl⟩ := hc
                refine ⟨_, hparse, by rw [hi3, hi2]; rfl, by rw [hp3]; exact hpos2, ?_⟩
                intro _ hnf
                have := Src.read_got_zero hrd (Src.noFalseEof_of_suffix hnf hsc12) (Nat.le_refl _) (by omega)
                rw [← hi2]; exact this
          · -- not the final chunk
            rename_i hlast
            simp only [Prod.mk.injEq] at h; obtain ⟨rfl, rfl⟩ := h
            have hlast' : (beVal (((s.inp.take 16).drop 8).take 4) == 1) = false := by
              simpa using hlast
            refine ⟨hsc12, ?_, fun e he => by simp at he⟩
            intro pt' last hc
            simp only [ROut.chunk.injEq] at hc
            obtain ⟨rfl, rfl⟩ := hc
            refine ⟨_, ?_, hi2, hpos2, fun hf => by simp at hf⟩
            simp only [parse1, if_neg hlen16, if_neg hcs, if_neg hlenb, hdec, hlast']

/-- on a fault-free source an `ioRead` from the read phase means the data is truncated -/
theorem readRecordIO_ioRead_faultFree {A : Aead} {key aad : Bytes} {cs ctr : Nat} {s s3 : Src}
    (h : readRecordIO A key aad cs ctr s = (.fail .ioRead, s3)) (hs : s.faultFree) :
    parse1 A key aad cs ctr s.inp = .fail .ioRead := by
  obtain ⟨_, _, hf⟩ := readRecordIO_spec h
  rcases hf .ioRead rfl with ⟨h1, _⟩ | ⟨h1, _⟩ | ⟨_, h1⟩
  · rcases h1 with h1 | h1 <;> simp at h1
  · simp at h1
  · rcases h1 hs.benign with h2 | ⟨_, _, _, _, pre, hpre⟩
    · exact h2
    · obtain ⟨n, hn, _⟩ := hs .errInterrupted (by rw [hpre]; simp)
      simp at hn

/-- the errors of the read phase -/
theorem readRecordIO_fail_kind {A : Aead} {key aad : Bytes} {cs ctr : Nat} {s s3 : Src} {e : Res}
    (h : readRecordIO A key aad cs ctr s = (.fail e, s3)) :
    e = .ioRead ∨ e = .chunkLen ∨ e = .auth ∨ e = .unexpectedData := by
  obtain ⟨_, _, hf⟩ := readRecordIO_spec h
  rcases hf e rfl with ⟨h1 | h1, _⟩ | ⟨h1, _⟩ | ⟨h1, _⟩ <;> simp [h1]

/-- **Write phase, ALL scripts.** -/
theorem writeChunk_spec {k k' : Snk} {at_ : Nat × Nat} {pt : Bytes} {r : Bool} (h : writeChunk k at_ pt = (r, k')) :
    ∃ (p : Bytes) (L : List WLog), k'.out = k.out ++ p ∧ p <+: pt ∧ (r = true → p = pt) ∧ k'.log = L ++ k.log ∧
      (∀ e ∈ L, e.srcPos = at_.1 ∧ e.srcReads = at_.2) ∧ (L.map (·.n)).sum = p.length ∧
      (k.faultFree → r = true ∧ k'.faultFree) ∧ (k.benign → r = true ∧ k'.benign) := by
  unfold writeChunk at h
  split at h
  · rename_i k1 hw
    simp only [Prod.mk.injEq] at h; obtain ⟨rfl, rfl⟩ := h
    obtain ⟨p, L, h1, h2, _, _, _, _, h7, h8, h9⟩ := Snk.writeAll_spec _ _ _ _ _ _ hw
    refine ⟨p, L, h1, h2, by simp, h7, h8, h9, ?_, ?_⟩
    · intro hf
      obtain ⟨k'', hk'', _⟩ := Snk.writeAll_faultFree (at_ := at_) (b := pt) hf (Nat.le_refl _)
      rw [hw] at hk''; simp at hk''
    · intro hf
      obtain ⟨k'', hk'', _⟩ := Snk.writeAll_benign (at_ := at_) (b := pt) hf (Nat.le_refl _)
      rw [hw] at hk''; simp at hk''
  · rename_i k1 hw
    obtain ⟨p, L, h1, h2, h3, h4, _, h6, h7, h8, h9⟩ := Snk.writeAll_spec _ _ _ _ _ _ hw
    obtain ⟨ho, hl, hws, hfs⟩ := Snk.flush_frame h
    refine ⟨p, L, by rw [ho, h1], h2, fun _ => h3 rfl, by rw [hl, h7], h8, h9, ?_, ?_⟩
    · intro hf
      exact Snk.flush_faultFree (Snk.faultFree_of_suffix hf h6 ⟨[], by rw [h4]; rfl⟩) h
    · intro hf
      exact Snk.flush_benign (Snk.benign_of_suffix hf h6 ⟨[], by rw [h4]; rfl⟩) h

end Kestrel
