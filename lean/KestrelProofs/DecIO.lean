/-
  Refinement between the two levels of `decrypt_chunks`:
  `decLoop` (pure, on the complete input) and `decLoopIO` (the same control flow over a scripted source and sink).

  One iteration is split into a read phase (`readRecordIO` ↔ `parse1`) and a write phase (`writeChunk`);
  the theorems are inductions over the fuel that use only the two phase specifications.
-/
import KestrelModel.Chunks
import KestrelModel.File
import KestrelProofs.IOBasics
namespace Kestrel

/-! ### one iteration, pure level -/

/-- outcome of parsing and opening the first record of a byte string -/
inductive POut
  | fail (e : Res)
  | chunk (pt : Bytes) (last : Bool) (rest : Bytes)

/-- the first record of `inp`: the checks of one `decLoop` iteration, in order -/
def parse1 (A : Aead) (key aad : Bytes) (cs ctr : Nat) (inp : Bytes) : POut :=
  if inp.length < 16 then .fail .ioRead else
  if beVal ((inp.take 16).drop 12) > cs then .fail .chunkLen else
  if (inp.drop 16).length < beVal ((inp.take 16).drop 12) + 16 then .fail .ioRead else
  match A.dec key ctr (aad ++ ((inp.take 16).drop 8).take 4 ++ (inp.take 16).drop 12)
      ((inp.drop 16).take (beVal ((inp.take 16).drop 12) + 16)) with
  | none => .fail .auth
  | some pt => .chunk pt (beVal (((inp.take 16).drop 8).take 4) == 1) ((inp.drop 16).drop (beVal ((inp.take 16).drop 12) + 16))

theorem decLoop_succ (A : Aead) (key aad : Bytes) (cs fuel ctr : Nat) (inp : Bytes) :
    decLoop A key aad cs (fuel+1) ctr inp =
      match parse1 A key aad cs ctr inp with
      | .fail e => ([], e)
      | .chunk pt last rest' =>
        if last then (if rest'.length ≠ 0 then ([], .unexpectedData) else ([pt], .ok))
        else (pt :: (decLoop A key aad cs fuel (ctr+1) rest').1, (decLoop A key aad cs fuel (ctr+1) rest').2) := by
  simp only [decLoop, parse1]
  split
  · rfl
  · split
    · rfl
    · split
      · rfl
      · split <;> rename_i h <;> simp only [h]

/-- a record is at least 32 bytes long -/
theorem parse1_chunk_len {A : Aead} {key aad : Bytes} {cs ctr : Nat} {inp pt rest' : Bytes} {last : Bool}
    (h : parse1 A key aad cs ctr inp = .chunk pt last rest') : rest'.length + 32 ≤ inp.length := by
  unfold parse1 at h
  split at h
  · simp at h
  · split at h
    · simp at h
    · split at h
      · simp at h
      · split at h
        · simp at h
        · simp only [POut.chunk.injEq] at h
          obtain ⟨_, _, rfl⟩ := h
          simp only [List.length_drop] at *
          omega

/-- with a lawful AEAD and a 32-byte key, a record occupies exactly `32 + |plaintext|` bytes -/
theorem parse1_chunk_len_lawful {A : Aead} (hA : A.Lawful) {key aad : Bytes} (hk : key.length = 32) {cs ctr : Nat}
    {inp pt rest' : Bytes} {last : Bool}
    (h : parse1 A key aad cs ctr inp = .chunk pt last rest') : inp.length = 32 + pt.length + rest'.length := by
  unfold parse1 at h
  split at h
  · simp at h
  · split at h
    · simp at h
    · split at h
      · simp at h
      · split at h
        · simp at h
        · rename_i pt' hdec
          simp only [POut.chunk.injEq] at h
          obtain ⟨rfl, _, rfl⟩ := h
          have h1 := hA.dec_sound _ _ _ _ _ hk hdec
          have h2 := congrArg List.length h1
          rw [hA.enc_length _ _ _ _ hk] at h2
          simp only [List.length_take, List.length_drop] at *
          omega

/-- the pure loop does not depend on its fuel once the fuel covers the input -/
theorem decLoop_fuel_succ (A : Aead) (key aad : Bytes) (cs : Nat) : ∀ (fuel ctr : Nat) (inp : Bytes), inp.length ≤ fuel →
    decLoop A key aad cs (fuel+1) ctr inp = decLoop A key aad cs fuel ctr inp := by
  intro fuel
  induction fuel with
  | zero =>
    intro ctr inp h
    have : inp.length < 16 := by omega
    simp [decLoop, this]
  | succ f ih =>
    intro ctr inp h
    rw [decLoop_succ, decLoop_succ A key aad cs f]
    split
    · rfl
    · rename_i pt last rest' hp
      have := parse1_chunk_len hp
      rw [ih (ctr+1) rest' (by omega)]

theorem decLoop_fuel_irrel (A : Aead) (key aad : Bytes) (cs : Nat) (ctr : Nat) (inp : Bytes) :
    ∀ (fuel : Nat), inp.length ≤ fuel → decLoop A key aad cs fuel ctr inp = decLoop A key aad cs inp.length ctr inp := by
  intro fuel h
  induction fuel with
  | zero => have : inp.length = 0 := by omega
            rw [this]
  | succ f ih =>
    rcases Nat.lt_or_ge inp.length (f+1) with hl | hl
    · rw [decLoop_fuel_succ A key aad cs f ctr inp (by omega), ih (by omega)]
    · have : inp.length = f + 1 := by omega
      rw [this]

/-! ### one iteration, I/O level -/

/-- outcome of the read phase of one `decLoopIO` iteration -/
inductive ROut
  | fail (e : Res)
  | chunk (pt : Bytes) (last : Bool)

/-- read phase: header, body, open, trailing-data probe -/
def readRecordIO (A : Aead) (key aad : Bytes) (cs ctr : Nat) (s : Src) : ROut × Src :=
  match Src.readExact (s.fuel 16) s 16 with
  | (none, s1) => (.fail .ioRead, s1)
  | (some hdr, s1) =>
    if beVal (hdr.drop 12) > cs then (.fail .chunkLen, s1) else
    match Src.readExact (s1.fuel (beVal (hdr.drop 12) + 16)) s1 (beVal (hdr.drop 12) + 16) with
    | (none, s2) => (.fail .ioRead, s2)
    | (some body, s2) =>
      match A.dec key ctr (aad ++ (hdr.drop 8).take 4 ++ hdr.drop 12) body with
      | none => (.fail .auth, s2)
      | some pt =>
        if beVal ((hdr.drop 8).take 4) == 1 then
          match s2.read 1 with
          | (.err, s3) => (.fail .ioRead, s3)
          | (.interrupted, s3) => (.fail .ioRead, s3)
          | (.got b, s3) => if b.length ≠ 0 then (.fail .unexpectedData, s3) else (.chunk pt true, s3)
        else (.chunk pt false, s2)

/-- write phase: `write_all` then `flush` -/
def writeChunk (k : Snk) (at_ : Nat × Nat) (pt : Bytes) : Bool × Snk :=
  match Snk.writeAll at_ (k.wfuel pt) k pt with
  | (false, k1) => (false, k1)
  | (true, k1) => k1.flush

theorem decLoopIO_succ (A : Aead) (key aad : Bytes) (cs fuel ctr : Nat) (s : Src) (k : Snk) :
    decLoopIO A key aad cs (fuel+1) ctr s k =
      match readRecordIO A key aad cs ctr s with
      | (.fail e, s3) => (e, s3, k)
      | (.chunk pt last, s3) =>
        match writeChunk k (s3.pos, s3.nreads) pt with
        | (false, k2) => (.ioWrite, s3, k2)
        | (true, k2) => if last then (.ok, s3, k2) else decLoopIO A key aad cs fuel (ctr+1) s3 k2 := by
  simp only [decLoopIO, readRecordIO, writeChunk]
  generalize Src.readExact (s.fuel 16) s 16 = x
  obtain ⟨o, s1⟩ := x
  cases o with
  | none => rfl
  | some hdr =>
    simp only
    split
    · rfl
    · generalize Src.readExact (s1.fuel (beVal (hdr.drop 12) + 16)) s1 (beVal (hdr.drop 12) + 16) = y
      obtain ⟨o2, s2⟩ := y
      cases o2 with
      | none => rfl
      | some body =>
        simp only
        cases A.dec key ctr (aad ++ (hdr.drop 8).take 4 ++ hdr.drop 12) body with
        | none => rfl
        | some pt =>
          simp only
          cases hl : (beVal ((hdr.drop 8).take 4) == 1) with
          | false =>
            simp only [Bool.false_eq_true, if_false]
            generalize Snk.writeAll (s2.pos, s2.nreads) (k.wfuel pt) k pt = w
            obtain ⟨r, k1⟩ := w
            cases r with
            | false => rfl
            | true =>
              simp only
              generalize k1.flush = z
              obtain ⟨r2, k2⟩ := z
              cases r2 <;> rfl
          | true =>
            simp only [if_true]
            generalize s2.read 1 = p
            obtain ⟨rr, s3⟩ := p
            cases rr with
            | err => rfl
            | interrupted => rfl
            | got b =>
              simp only
              by_cases hb : b.length = 0
              · simp only [hb, ne_eq, not_true_eq_false, if_false]
                generalize Snk.writeAll (s3.pos, s3.nreads) (k.wfuel pt) k pt = w
                obtain ⟨r, k1⟩ := w
                cases r with
                | false => rfl
                | true =>
                  simp only
                  generalize k1.flush = z
                  obtain ⟨r2, k2⟩ := z
                  cases r2 <;> rfl
              · simp only [hb, ne_eq, not_false_eq_true, if_true]

/-! ### specification of the two phases -/

/-- **Read phase, ALL scripts.** Whatever the source does, what the read phase returns is what `parse1` computes on the
    data that is really there — or an `ioRead`. Specifically:
    * a chunk is returned only if `parse1` yields the same chunk; the source then stands exactly at the end of the record
      (for a final chunk: the probe returned 0 bytes; unless the script forged an end-of-stream, no data remains);
    * `chunkLen` / `auth` / `unexpectedData` are returned only if the pure level says the same;
    * `ioRead` on a benign script means the data is truncated, or the un-retried probe read was interrupted. -/
theorem readRecordIO_spec {A : Aead} {key aad : Bytes} {cs ctr : Nat} {s s3 : Src} {o : ROut}
    (h : readRecordIO A key aad cs ctr s = (o, s3)) :
    (∃ pre, s.script = pre ++ s3.script) ∧
    (∀ pt last, o = .chunk pt last → ∃ rest', parse1 A key aad cs ctr s.inp = .chunk pt last rest' ∧ s3.inp = rest' ∧
        s3.pos + rest'.length = s.pos + s.inp.length ∧ (last = true → s.noFalseEof → rest' = [])) ∧
    (∀ e, o = .fail e →
        ((e = .chunkLen ∨ e = .auth) ∧ parse1 A key aad cs ctr s.inp = .fail e) ∨
        (e = .unexpectedData ∧ ∃ pt rest', parse1 A key aad cs ctr s.inp = .chunk pt true rest' ∧ rest' ≠ []) ∨
        (e = .ioRead ∧ (s.benign → parse1 A key aad cs ctr s.inp = .fail .ioRead ∨
            (∃ pt rest', parse1 A key aad cs ctr s.inp = .chunk pt true rest' ∧ s3.inp = rest' ∧
              ∃ pre, s.script = pre ++ .errInterrupted :: s3.script)))) := by
  unfold readRecordIO at h
  split at h
  · -- header read failed
    rename_i s1 h16
    simp only [Prod.mk.injEq] at h; obtain ⟨rfl, rfl⟩ := h
    obtain ⟨_, _, _, _, _, hsc⟩ := Src.readExact_frame _ _ _ _ _ h16
    refine ⟨hsc, fun pt last hc => by simp at hc, ?_⟩
    intro e he
    simp only [ROut.fail.injEq] at he; subst he
    refine Or.inr (Or.inr ⟨rfl, fun hb => Or.inl ?_⟩)
    have hl := Src.readExact_none_benign hb (Nat.le_refl _) h16
    simp only [parse1, if_pos hl]
  · rename_i hdr s1 h16
    obtain ⟨hh, hhl, hi1, hp1, hn1, hsc1⟩ := Src.readExact_some _ _ _ _ _ h16
    have hlen16 : ¬ s.inp.length < 16 := Nat.not_lt.mpr (Src.readExact_some_len h16)
    subst hh
    split at h
    · -- chunk length too large
      rename_i hcs
      simp only [Prod.mk.injEq] at h; obtain ⟨rfl, rfl⟩ := h
      refine ⟨hsc1, fun pt last hc => by simp at hc, ?_⟩
      intro e he
      simp only [ROut.fail.injEq] at he; subst he
      refine Or.inl ⟨Or.inl rfl, ?_⟩
      simp only [parse1, if_neg hlen16, if_pos hcs]
    · rename_i hcs
      split at h
      · -- body read failed
        rename_i s2 hbody
        simp only [Prod.mk.injEq] at h; obtain ⟨rfl, rfl⟩ := h
        obtain ⟨_, _, _, _, _, hsc2⟩ := Src.readExact_frame _ _ _ _ _ hbody
        refine ⟨suffix_trans hsc1 hsc2, fun pt last hc => by simp at hc, ?_⟩
        intro e he
        simp only [ROut.fail.injEq] at he; subst he
        refine Or.inr (Or.inr ⟨rfl, fun hb => Or.inl ?_⟩)
        have hl := Src.readExact_none_benign (Src.benign_of_suffix hb hsc1) (Nat.le_refl _) hbody
        rw [hi1] at hl
        simp only [parse1, if_neg hlen16, if_neg hcs, if_pos hl]
      · rename_i body s2 hbody
        obtain ⟨hb, hbl, hi2, hp2, hn2, hsc2⟩ := Src.readExact_some _ _ _ _ _ hbody
        have hlenb : ¬ (s.inp.drop 16).length < beVal ((s.inp.take 16).drop 12) + 16 := by
          have := Src.readExact_some_len hbody
          rw [hi1] at this; omega
        rw [hi1] at hb hi2
        subst hb
        have hsc12 := suffix_trans hsc1 hsc2
        have hpos2 : s2.pos + ((s.inp.drop 16).drop (beVal ((s.inp.take 16).drop 12) + 16)).length = s.pos + s.inp.length := by
          simp only [List.length_drop] at hlenb ⊢
          omega
        split at h
        · -- authentication failed
          rename_i hdec
          simp only [Prod.mk.injEq] at h; obtain ⟨rfl, rfl⟩ := h
          refine ⟨hsc12, fun pt last hc => by simp at hc, ?_⟩
          intro e he
          simp only [ROut.fail.injEq] at he; subst he
          refine Or.inl ⟨Or.inr rfl, ?_⟩
          simp only [parse1, if_neg hlen16, if_neg hcs, if_neg hlenb, hdec]
        · rename_i pt hdec
          split at h
          · -- final chunk: probe
            rename_i hlast
            have hparse : parse1 A key aad cs ctr s.inp =
                .chunk pt true ((s.inp.drop 16).drop (beVal ((s.inp.take 16).drop 12) + 16)) := by
              simp only [parse1, if_neg hlen16, if_neg hcs, if_neg hlenb, hdec, hlast]
            split at h
            · -- hard error on the probe
              rename_i s3' hrd
              simp only [Prod.mk.injEq] at h; obtain ⟨rfl, rfl⟩ := h
              obtain ⟨_, _, _, hsc3⟩ := Src.read_err hrd
              refine ⟨suffix_trans hsc12 ⟨[.errOther], by rw [hsc3]; rfl⟩, fun pt last hc => by simp at hc, ?_⟩
              intro e he
              simp only [ROut.fail.injEq] at he; subst he
              refine Or.inr (Or.inr ⟨rfl, fun hb => ?_⟩)
              have hb2 := Src.benign_of_suffix hb hsc12
              rcases hb2 .errOther (by rw [hsc3]; simp) with ⟨n, hn, _⟩ | hn <;> simp at hn
            · -- probe interrupted
              rename_i s3' hrd
              simp only [Prod.mk.injEq] at h; obtain ⟨rfl, rfl⟩ := h
              obtain ⟨hi3, _, _, hsc3⟩ := Src.read_interrupted hrd
              obtain ⟨pre, hpre⟩ := hsc12
              refine ⟨⟨pre ++ [.errInterrupted], by rw [hpre, hsc3]; simp⟩, fun pt last hc => by simp at hc, ?_⟩
              intro e he
              simp only [ROut.fail.injEq] at he; subst he
              exact Or.inr (Or.inr ⟨rfl, fun _ => Or.inr ⟨pt, _, hparse, by rw [hi3, hi2], pre, by rw [hpre, hsc3]⟩⟩)
            · rename_i b s3' hrd
              obtain ⟨m, _, hm, hbm, hbml, hi3, hp3, _, hsc3⟩ := Src.read_got hrd
              split at h
              · -- trailing data
                rename_i hbne
                simp only [Prod.mk.injEq] at h; obtain ⟨rfl, rfl⟩ := h
                refine ⟨suffix_trans hsc12 hsc3, fun pt last hc => by simp at hc, ?_⟩
                intro e he
                simp only [ROut.fail.injEq] at he; subst he
                refine Or.inr (Or.inl ⟨rfl, pt, _, hparse, ?_⟩)
                intro hnil
                rw [hi2, hnil] at hm
                simp only [List.length_nil] at hm
                omega
              · -- clean end
                rename_i hbe
                simp only [Prod.mk.injEq] at h; obtain ⟨rfl, rfl⟩ := h
                have hm0 : m = 0 := by omega
                subst hm0
                refine ⟨suffix_trans hsc12 hsc3, ?_, fun e he => by simp at he⟩
                intro pt' last hc
                simp only [ROut.chunk.injEq] at hc
                obtain ⟨rfl, rfl⟩ := hc
                refine ⟨_, hparse, by rw [hi3, hi2]; rfl, by rw [hp3]; exact hpos2, ?_⟩
                intro _ hnf
                have := Src.read_got_zero hrd (Src.noFalseEof_of_suffix hnf hsc12) (Nat.le_refl _) (by omega)
                rw [← hi2]; exact this
          · -- not the final chunk
            rename_i hlast
            simp only [Prod.mk.injEq] at h; obtain ⟨rfl, rfl⟩ := h
            have hlast' : (beVal (((s.inp.take 16).drop 8).take 4) == 1) = false := by
              simpa using hlast
            refine ⟨hsc12, ?_, fun e he => by simp at he⟩
            intro pt' last hc
            simp only [ROut.chunk.injEq] at hc
            obtain ⟨rfl, rfl⟩ := hc
            refine ⟨_, ?_, hi2, hpos2, fun hf => by simp at hf⟩
            simp only [parse1, if_neg hlen16, if_neg hcs, if_neg hlenb, hdec, hlast']

/-- on a fault-free source an `ioRead` from the read phase means the data is truncated -/
theorem readRecordIO_ioRead_faultFree {A : Aead} {key aad : Bytes} {cs ctr : Nat} {s s3 : Src}
    (h : readRecordIO A key aad cs ctr s = (.fail .ioRead, s3)) (hs : s.faultFree) :
    parse1 A key aad cs ctr s.inp = .fail .ioRead := by
  obtain ⟨_, _, hf⟩ := readRecordIO_spec h
  rcases hf .ioRead rfl with ⟨h1, _⟩ | ⟨h1, _⟩ | ⟨_, h1⟩
  · rcases h1 with h1 | h1 <;> simp at h1
  · simp at h1
  · rcases h1 hs.benign with h2 | ⟨_, _, _, _, pre, hpre⟩
    · exact h2
    · obtain ⟨n, hn, _⟩ := hs .errInterrupted (by rw [hpre]; simp)
      simp at hn

/-- the errors of the read phase -/
theorem readRecordIO_fail_kind {A : Aead} {key aad : Bytes} {cs ctr : Nat} {s s3 : Src} {e : Res}
    (h : readRecordIO A key aad cs ctr s = (.fail e, s3)) :
    e = .ioRead ∨ e = .chunkLen ∨ e = .auth ∨ e = .unexpectedData := by
  obtain ⟨_, _, hf⟩ := readRecordIO_spec h
  rcases hf e rfl with ⟨h1 | h1, _⟩ | ⟨h1, _⟩ | ⟨h1, _⟩ <;> simp [h1]

/-- **Write phase, ALL scripts.** -/
theorem writeChunk_spec {k k' : Snk} {at_ : Nat × Nat} {pt : Bytes} {r : Bool} (h : writeChunk k at_ pt = (r, k')) :
    ∃ (p : Bytes) (L : List WLog), k'.out = k.out ++ p ∧ p <+: pt ∧ (r = true → p = pt) ∧ k'.log = L ++ k.log ∧
      (∀ e ∈ L, e.srcPos = at_.1 ∧ e.srcReads = at_.2) ∧ (L.map (·.n)).sum = p.length ∧
      (k.faultFree → r = true ∧ k'.faultFree) ∧ (k.benign → r = true ∧ k'.benign) := by
  unfold writeChunk at h
  split at h
  · rename_i k1 hw
    simp only [Prod.mk.injEq] at h; obtain ⟨rfl, rfl⟩ := h
    obtain ⟨p, L, h1, h2, _, _, _, _, h7, h8, h9⟩ := Snk.writeAll_spec _ _ _ _ _ _ hw
    refine ⟨p, L, h1, h2, by simp, h7, h8, h9, ?_, ?_⟩
    · intro hf
      obtain ⟨k'', hk'', _⟩ := Snk.writeAll_faultFree (at_ := at_) (b := pt) hf (Nat.le_refl _)
      rw [hw] at hk''; simp at hk''
    · intro hf
      obtain ⟨k'', hk'', _⟩ := Snk.writeAll_benign (at_ := at_) (b := pt) hf (Nat.le_refl _)
      rw [hw] at hk''; simp at hk''
  · rename_i k1 hw
    obtain ⟨p, L, h1, h2, h3, h4, _, h6, h7, h8, h9⟩ := Snk.writeAll_spec _ _ _ _ _ _ hw
    obtain ⟨ho, hl, hws, hfs⟩ := Snk.flush_frame h
    refine ⟨p, L, by rw [ho, h1], h2, fun _ => h3 rfl, by rw [hl, h7], h8, h9, ?_, ?_⟩
    · intro hf
      exact Snk.flush_faultFree (Snk.faultFree_of_suffix hf h6 ⟨[], by rw [h4]; rfl⟩) h
    · intro hf
      exact Snk.flush_benign (Snk.benign_of_suffix hf h6 ⟨[], by rw [h4]; rfl⟩) h

/-- what the pure level says when the read phase reports an error -/
theorem readRecordIO_fail_pure {A : Aead} {key aad : Bytes} {cs ctr : Nat} {s s3 : Src} {e : Res}
    (h : readRecordIO A key aad cs ctr s = (.fail e, s3)) (fuel0 : Nat) :
    (e ≠ .ioRead → decLoop A key aad cs (fuel0+1) ctr s.inp = ([], e)) ∧
    (s.faultFree → decLoop A key aad cs (fuel0+1) ctr s.inp = ([], e)) := by
  obtain ⟨_, _, hf⟩ := readRecordIO_spec h
  have hcases : e ≠ .ioRead → decLoop A key aad cs (fuel0+1) ctr s.inp = ([], e) := by
    intro hne
    rcases hf e rfl with ⟨_, h2⟩ | ⟨h1, pt, rest', h2, h3⟩ | ⟨h1, _⟩
    · rw [decLoop_succ, h2]
    · rw [decLoop_succ, h2, h1]
      have : rest'.length ≠ 0 := fun h0 => h3 (List.eq_nil_of_length_eq_zero h0)
      simp only [if_true, this, ne_eq, not_false_eq_true]
    · exact absurd h1 hne
  refine ⟨hcases, fun hs => ?_⟩
  by_cases he : e = .ioRead
  · subst he
    rw [decLoop_succ, readRecordIO_ioRead_faultFree h hs]
  · exact hcases he

variable (A : Aead) (key aad : Bytes) (cs : Nat)

/-! ### (a), (b), (e): what is written is a whole-chunk prefix of the fault-free output -/

/-- **Refinement (a)+(b)+(e).** For every source script that does not forge an end-of-stream and EVERY sink script: at every
    stopping point the output is whole decrypted chunks of the pure run, in order, plus a partial chunk only if the sink
    itself failed; success implies pure success and the complete output. -/
theorem decLoopIO_prefix : ∀ (fuel fuel0 ctr : Nat) (s : Src) (k : Snk) (res : Res) (s' : Src) (k' : Snk)
    (ws : List Bytes) (pres : Res),
    s.noFalseEof → s.inp.length + 1 ≤ fuel → s.inp.length ≤ fuel0 →
    decLoopIO A key aad cs fuel ctr s k = (res, s', k') →
    decLoop A key aad cs fuel0 ctr s.inp = (ws, pres) →
    ∃ j q, k'.out = k.out ++ (ws.take j).flatten ++ q ∧ j ≤ ws.length ∧
      (q = [] ∨ (res = .ioWrite ∧ ∃ w, ws[j]? = some w ∧ q <+: w)) ∧
      (res = .ok → pres = .ok ∧ j = ws.length ∧ q = []) := by
  intro fuel
  induction fuel with
  | zero => intro fuel0 ctr s k res s' k' ws pres _ hf; omega
  | succ f ih =>
    intro fuel0 ctr s k res s' k' ws pres hnf hf hf0 hIO hP
    rw [← decLoop_fuel_succ A key aad cs fuel0 ctr s.inp hf0, decLoop_succ] at hP
    rw [decLoopIO_succ] at hIO
    rcases hrr : readRecordIO A key aad cs ctr s with ⟨o, s3⟩
    rw [hrr] at hIO
    obtain ⟨hsc, hchunk, _⟩ := readRecordIO_spec hrr
    cases o with
    | fail e =>
      simp only [Prod.mk.injEq] at hIO
      obtain ⟨rfl, rfl, rfl⟩ := hIO
      refine ⟨0, [], by simp, Nat.zero_le _, Or.inl rfl, ?_⟩
      intro hok
      have := readRecordIO_fail_kind hrr
      simp [hok] at this
    | chunk pt last =>
      obtain ⟨rest', hp1, hi3, hpos3, hlast⟩ := hchunk pt last rfl
      rw [hp1] at hP
      simp only at hP hIO
      have hlen := parse1_chunk_len hp1
      rcases hwc : writeChunk k (s3.pos, s3.nreads) pt with ⟨r, k2⟩
      rw [hwc] at hIO
      obtain ⟨p, L, ho, hpp, hpt, _⟩ := writeChunk_spec hwc
      cases last with
      | true =>
        have hr : rest' = [] := hlast rfl hnf
        subst hr
        simp only [if_true, List.length_nil, ne_eq, not_true_eq_false, if_false, Prod.mk.injEq] at hP
        obtain ⟨rfl, rfl⟩ := hP
        cases r with
        | false =>
          simp only [Prod.mk.injEq] at hIO; obtain ⟨rfl, rfl, rfl⟩ := hIO
          exact ⟨0, p, by simp [ho], by simp, Or.inr ⟨rfl, pt, by simp, hpp⟩, by simp⟩
        | true =>
          simp only [if_true, Prod.mk.injEq] at hIO; obtain ⟨rfl, rfl, rfl⟩ := hIO
          exact ⟨1, [], by simp [ho, hpt rfl], by simp, Or.inl rfl, fun _ => ⟨rfl, rfl, rfl⟩⟩
      | false =>
        simp only [Bool.false_eq_true, if_false, Prod.mk.injEq] at hP
        obtain ⟨rfl, rfl⟩ := hP
        cases r with
        | false =>
          simp only [Prod.mk.injEq] at hIO; obtain ⟨rfl, rfl, rfl⟩ := hIO
          exact ⟨0, p, by simp [ho], by simp, Or.inr ⟨rfl, pt, by simp, hpp⟩, by simp⟩
        | true =>
          simp only [Bool.false_eq_true, if_false] at hIO
          obtain ⟨j, q, h1, h2, h3, h4⟩ := ih fuel0 (ctr+1) s3 k2 res s' k' _ _ (Src.noFalseEof_of_suffix hnf hsc)
            (by rw [hi3]; omega) (by rw [hi3]; omega) hIO (by rw [hi3])
          refine ⟨j+1, q, by rw [h1, ho, hpt rfl]; simp, by simp only [List.length_cons]; omega, ?_, ?_⟩
          · simpa using h3
          · intro hok
            obtain ⟨h5, h6, h7⟩ := h4 hok
            exact ⟨h5, by simp only [List.length_cons]; omega, h7⟩

/-- **(b)** success at the I/O level implies success at the pure level and the complete output -/
theorem decLoopIO_ok {fuel fuel0 ctr : Nat} {s s' : Src} {k k' : Snk} {ws : List Bytes} {pres : Res}
    (hnf : s.noFalseEof) (hf : s.inp.length + 1 ≤ fuel) (hf0 : s.inp.length ≤ fuel0)
    (hIO : decLoopIO A key aad cs fuel ctr s k = (.ok, s', k'))
    (hP : decLoop A key aad cs fuel0 ctr s.inp = (ws, pres)) :
    pres = .ok ∧ k'.out = k.out ++ ws.flatten := by
  obtain ⟨j, q, h1, _, _, h4⟩ := decLoopIO_prefix A key aad cs fuel fuel0 ctr s k .ok s' k' ws pres hnf hf hf0 hIO hP
  obtain ⟨h5, rfl, rfl⟩ := h4 rfl
  exact ⟨h5, by simpa using h1⟩

/-- **(e)** once an error other than a sink error is decided nothing more is written: the output is whole chunks only -/
theorem decLoopIO_err_whole {fuel fuel0 ctr : Nat} {s s' : Src} {k k' : Snk} {res : Res} {ws : List Bytes} {pres : Res}
    (hnf : s.noFalseEof) (hf : s.inp.length + 1 ≤ fuel) (hf0 : s.inp.length ≤ fuel0)
    (hIO : decLoopIO A key aad cs fuel ctr s k = (res, s', k'))
    (hP : decLoop A key aad cs fuel0 ctr s.inp = (ws, pres)) (hw : res ≠ .ioWrite) :
    ∃ j, j ≤ ws.length ∧ k'.out = k.out ++ (ws.take j).flatten := by
  obtain ⟨j, q, h1, h2, h3, _⟩ := decLoopIO_prefix A key aad cs fuel fuel0 ctr s k res s' k' ws pres hnf hf hf0 hIO hP
  rcases h3 with rfl | ⟨h3, _⟩
  · exact ⟨j, h2, by simpa using h1⟩
  · exact absurd h3 hw

/-! ### (d): error classification -/

/-- **(d1)** a sink error is reported only if the sink misbehaved — for EVERY source script -/
theorem decLoopIO_ioWrite : ∀ (fuel ctr : Nat) (s : Src) (k : Snk) (s' : Src) (k' : Snk),
    decLoopIO A key aad cs fuel ctr s k = (.ioWrite, s', k') → ¬ k.faultFree := by
  intro fuel
  induction fuel with
  | zero => intro ctr s k s' k' h; simp [decLoopIO] at h
  | succ f ih =>
    intro ctr s k s' k' hIO hk
    rw [decLoopIO_succ] at hIO
    rcases hrr : readRecordIO A key aad cs ctr s with ⟨o, s3⟩
    rw [hrr] at hIO
    cases o with
    | fail e =>
      simp only [Prod.mk.injEq] at hIO
      obtain ⟨rfl, rfl, rfl⟩ := hIO
      have := readRecordIO_fail_kind hrr
      simp at this
    | chunk pt last =>
      simp only at hIO
      rcases hwc : writeChunk k (s3.pos, s3.nreads) pt with ⟨r, k2⟩
      rw [hwc] at hIO
      obtain ⟨p, L, _, _, _, _, _, _, hff, _⟩ := writeChunk_spec hwc
      obtain ⟨rfl, hk2⟩ := hff hk
      simp only at hIO
      cases last with
      | true => simp at hIO
      | false =>
        simp only [Bool.false_eq_true, if_false] at hIO
        exact ih (ctr+1) s3 k2 s' k' hIO hk2

/-- **(d2)+(d3)** every other error agrees with the pure level: `auth`, `chunkLen`, `unexpectedData` for EVERY script;
    `ioRead` whenever the source is fault-free (i.e. then the data itself is truncated) -/
theorem decLoopIO_err_agree : ∀ (fuel fuel0 ctr : Nat) (s : Src) (k : Snk) (res : Res) (s' : Src) (k' : Snk)
    (ws : List Bytes) (pres : Res),
    s.inp.length + 1 ≤ fuel → s.inp.length ≤ fuel0 →
    decLoopIO A key aad cs fuel ctr s k = (res, s', k') →
    decLoop A key aad cs fuel0 ctr s.inp = (ws, pres) →
    (res = .ioRead → s.faultFree) → res ≠ .ok → res ≠ .ioWrite → pres = res := by
  intro fuel
  induction fuel with
  | zero => intro fuel0 ctr s k res s' k' ws pres hf; omega
  | succ f ih =>
    intro fuel0 ctr s k res s' k' ws pres hf hf0 hIO hP hrd hok hwr
    rw [← decLoop_fuel_succ A key aad cs fuel0 ctr s.inp hf0] at hP
    rw [decLoopIO_succ] at hIO
    rcases hrr : readRecordIO A key aad cs ctr s with ⟨o, s3⟩
    rw [hrr] at hIO
    obtain ⟨hsc, hchunk, _⟩ := readRecordIO_spec hrr
    cases o with
    | fail e =>
      simp only [Prod.mk.injEq] at hIO
      obtain ⟨rfl, rfl, rfl⟩ := hIO
      obtain ⟨h1, h2⟩ := readRecordIO_fail_pure hrr fuel0
      by_cases he : e = .ioRead
      · rw [h2 (hrd he)] at hP
        simp only [Prod.mk.injEq] at hP; exact hP.2.symm
      · rw [h1 he] at hP
        simp only [Prod.mk.injEq] at hP; exact hP.2.symm
    | chunk pt last =>
      obtain ⟨rest', hp1, hi3, hpos3, hlast⟩ := hchunk pt last rfl
      rw [decLoop_succ, hp1] at hP
      simp only at hP hIO
      have hlen := parse1_chunk_len hp1
      rcases hwc : writeChunk k (s3.pos, s3.nreads) pt with ⟨r, k2⟩
      rw [hwc] at hIO
      cases r with
      | false =>
        simp only [Prod.mk.injEq] at hIO; exact absurd hIO.1.symm hwr
      | true =>
        cases last with
        | true => simp only [if_true, Prod.mk.injEq] at hIO; exact absurd hIO.1.symm hok
        | false =>
          simp only [Bool.false_eq_true, if_false, Prod.mk.injEq] at hP hIO
          obtain ⟨_, rfl⟩ := hP
          exact ih fuel0 (ctr+1) s3 k2 res s' k' _ _ (by rw [hi3]; omega) (by rw [hi3]; omega) hIO (by rw [hi3])
            (fun h => Src.faultFree_of_suffix (hrd h) hsc) hok hwr

/-- **(d2)** in the wording of the property: a read error means the source misbehaved or the data is truncated -/
theorem decLoopIO_ioRead {fuel fuel0 ctr : Nat} {s s' : Src} {k k' : Snk} {ws : List Bytes} {pres : Res}
    (hf : s.inp.length + 1 ≤ fuel) (hf0 : s.inp.length ≤ fuel0)
    (hIO : decLoopIO A key aad cs fuel ctr s k = (.ioRead, s', k'))
    (hP : decLoop A key aad cs fuel0 ctr s.inp = (ws, pres)) : ¬ s.faultFree ∨ pres = .ioRead := by
  by_cases hs : s.faultFree
  · exact Or.inr (decLoopIO_err_agree A key aad cs fuel fuel0 ctr s k .ioRead s' k' ws pres hf hf0 hIO hP (fun _ => hs)
      (by simp) (by simp))
  · exact Or.inl hs

/-- **(d3)** `auth`, `chunkLen`, `unexpectedData` are never caused by the I/O layer -/
theorem decLoopIO_pure_err {fuel fuel0 ctr : Nat} {s s' : Src} {k k' : Snk} {res : Res} {ws : List Bytes} {pres : Res}
    (hf : s.inp.length + 1 ≤ fuel) (hf0 : s.inp.length ≤ fuel0)
    (hIO : decLoopIO A key aad cs fuel ctr s k = (res, s', k'))
    (hP : decLoop A key aad cs fuel0 ctr s.inp = (ws, pres))
    (hres : res = .auth ∨ res = .chunkLen ∨ res = .unexpectedData) : pres = res := by
  refine decLoopIO_err_agree A key aad cs fuel fuel0 ctr s k res s' k' ws pres hf hf0 hIO hP ?_ ?_ ?_
  · intro h; rcases hres with h' | h' | h' <;> rw [h'] at h <;> simp at h
  · rcases hres with h' | h' | h' <;> rw [h'] <;> simp
  · rcases hres with h' | h' | h' <;> rw [h'] <;> simp

/-! ### (c): partition / partial-write independence -/

/-- **Refinement (c), exact form for benign scripts** (short reads and interruptions at the source; partial writes and
    interruptions at the sink). Either the I/O run agrees with the pure run — same result, complete output — or the single
    un-retried `read()` of the trailing-data probe was interrupted: then the result is `ioRead`, every chunk before the
    final one has been written and the final one has not. -/
theorem decLoopIO_benign : ∀ (fuel fuel0 ctr : Nat) (s : Src) (k : Snk) (res : Res) (s' : Src) (k' : Snk)
    (ws : List Bytes) (pres : Res),
    s.benign → k.benign → s.inp.length + 1 ≤ fuel → s.inp.length ≤ fuel0 →
    decLoopIO A key aad cs fuel ctr s k = (res, s', k') →
    decLoop A key aad cs fuel0 ctr s.inp = (ws, pres) →
    (res = pres ∧ k'.out = k.out ++ ws.flatten) ∨
    (res = .ioRead ∧ (∃ pre, s.script = pre ++ .errInterrupted :: s'.script) ∧
      ((pres = .unexpectedData ∧ k'.out = k.out ++ ws.flatten) ∨
       (pres = .ok ∧ ∃ init fin, ws = init ++ [fin] ∧ k'.out = k.out ++ init.flatten))) := by
  intro fuel
  induction fuel with
  | zero => intro fuel0 ctr s k res s' k' ws pres _ _ hf; omega
  | succ f ih =>
    intro fuel0 ctr s k res s' k' ws pres hs hk hf hf0 hIO hP
    rw [← decLoop_fuel_succ A key aad cs fuel0 ctr s.inp hf0] at hP
    rw [decLoopIO_succ] at hIO
    rcases hrr : readRecordIO A key aad cs ctr s with ⟨o, s3⟩
    rw [hrr] at hIO
    obtain ⟨hsc, hchunk, hfail⟩ := readRecordIO_spec hrr
    cases o with
    | fail e =>
      simp only [Prod.mk.injEq] at hIO
      obtain ⟨rfl, rfl, rfl⟩ := hIO
      obtain ⟨h1, _⟩ := readRecordIO_fail_pure hrr fuel0
      by_cases he : e = .ioRead
      · subst he
        rcases hfail .ioRead rfl with ⟨h2, _⟩ | ⟨h2, _⟩ | ⟨_, h2⟩
        · rcases h2 with h2 | h2 <;> simp at h2
        · simp at h2
        · rcases h2 hs with h3 | ⟨pt, rest', h3, _, hint⟩
          · rw [decLoop_succ, h3] at hP
            simp only [Prod.mk.injEq] at hP; obtain ⟨rfl, rfl⟩ := hP
            exact Or.inl ⟨rfl, by simp⟩
          · rw [decLoop_succ, h3] at hP
            simp only [if_true] at hP
            refine Or.inr ⟨rfl, hint, ?_⟩
            split at hP
            · simp only [Prod.mk.injEq] at hP; obtain ⟨rfl, rfl⟩ := hP
              exact Or.inl ⟨rfl, by simp⟩
            · simp only [Prod.mk.injEq] at hP; obtain ⟨rfl, rfl⟩ := hP
              exact Or.inr ⟨rfl, [], pt, rfl, by simp⟩
      · rw [h1 he] at hP
        simp only [Prod.mk.injEq] at hP; obtain ⟨rfl, rfl⟩ := hP
        exact Or.inl ⟨rfl, by simp⟩
    | chunk pt last =>
      obtain ⟨rest', hp1, hi3, hpos3, hlast⟩ := hchunk pt last rfl
      rw [decLoop_succ, hp1] at hP
      simp only at hP hIO
      have hlen := parse1_chunk_len hp1
      rcases hwc : writeChunk k (s3.pos, s3.nreads) pt with ⟨r, k2⟩
      rw [hwc] at hIO
      obtain ⟨p, L, ho, hpp, hpt, _, _, _, _, hbn⟩ := writeChunk_spec hwc
      obtain ⟨rfl, hk2⟩ := hbn hk
      simp only at hIO
      cases last with
      | true =>
        have hr : rest' = [] := hlast rfl hs.noFalseEof
        subst hr
        simp only [if_true, List.length_nil, ne_eq, not_true_eq_false, if_false, Prod.mk.injEq] at hP hIO
        obtain ⟨rfl, rfl⟩ := hP
        obtain ⟨rfl, rfl, rfl⟩ := hIO
        exact Or.inl ⟨rfl, by simp [ho, hpt rfl]⟩
      | false =>
        simp only [Bool.false_eq_true, if_false, Prod.mk.injEq] at hP hIO
        obtain ⟨rfl, rfl⟩ := hP
        rcases ih fuel0 (ctr+1) s3 k2 res s' k' _ _ (Src.benign_of_suffix hs hsc) hk2
            (by rw [hi3]; omega) (by rw [hi3]; omega) hIO (by rw [hi3]) with ⟨h1, h2⟩ | ⟨h1, ⟨pre, hpre⟩, h3⟩
        · exact Or.inl ⟨h1, by rw [h2, ho, hpt rfl]; simp⟩
        · obtain ⟨pre0, hpre0⟩ := hsc
          refine Or.inr ⟨h1, ⟨pre0 ++ pre, by rw [hpre0, hpre, List.append_assoc]⟩, ?_⟩
          rcases h3 with ⟨h4, h5⟩ | ⟨h4, init, fin, h5, h6⟩
          · exact Or.inl ⟨h4, by rw [h5, ho, hpt rfl]; simp⟩
          · exact Or.inr ⟨h4, pt :: init, fin, by rw [h5]; rfl, by rw [h6, ho, hpt rfl]; simp⟩

/-- **Refinement (c).** Fault-free source (any partition into short reads), benign sink (any partial writes, retried
    interruptions): the I/O run is the pure run. -/
theorem decLoopIO_faultFree {fuel fuel0 ctr : Nat} {s s' : Src} {k k' : Snk} {res : Res} {ws : List Bytes} {pres : Res}
    (hs : s.faultFree) (hk : k.benign) (hf : s.inp.length + 1 ≤ fuel) (hf0 : s.inp.length ≤ fuel0)
    (hIO : decLoopIO A key aad cs fuel ctr s k = (res, s', k'))
    (hP : decLoop A key aad cs fuel0 ctr s.inp = (ws, pres)) :
    res = pres ∧ k'.out = k.out ++ ws.flatten := by
  rcases decLoopIO_benign A key aad cs fuel fuel0 ctr s k res s' k' ws pres hs.benign hk hf hf0 hIO hP with h | ⟨_, ⟨pre, hpre⟩, _⟩
  · exact h
  · obtain ⟨n, hn, _⟩ := hs .errInterrupted (by rw [hpre]; simp)
    simp at hn

/-! ### (b'): the hypothesis-free form of (b) — the reader's declared end of stream is the end of the file -/

/-- parsing the first record only looks at that record -/
theorem parse1_take {A : Aead} {key aad : Bytes} {cs ctr : Nat} {inp pt rest' : Bytes} {last : Bool}
    (h : parse1 A key aad cs ctr inp = .chunk pt last rest') (t : Nat) :
    parse1 A key aad cs ctr (inp.take (inp.length - rest'.length + t)) = .chunk pt last (rest'.take t) := by
  unfold parse1 at h
  split at h
  · simp at h
  · rename_i h16
    split at h
    · simp at h
    · rename_i hcs
      split at h
      · simp at h
      · rename_i hbody
        split at h
        · simp at h
        · rename_i pt' hdec
          simp only [POut.chunk.injEq] at h
          obtain ⟨rfl, rfl, rfl⟩ := h
          generalize hlen : beVal ((inp.take 16).drop 12) = len at *
          simp only [List.length_drop] at hbody
          have hm : inp.length - ((inp.drop 16).drop (len + 16)).length = 32 + len := by
            simp only [List.length_drop]; omega
          rw [hm]
          have e1 : (inp.take (32 + len + t)).take 16 = inp.take 16 := by
            rw [List.take_take]; congr 1; omega
          have e2 : (inp.take (32 + len + t)).drop 16 = (inp.drop 16).take (16 + len + t) := by
            rw [List.drop_take]; congr 1; omega
          have e3 : ((inp.drop 16).take (16 + len + t)).take (len + 16) = (inp.drop 16).take (len + 16) := by
            rw [List.take_take]; congr 1; omega
          have e4 : ((inp.drop 16).take (16 + len + t)).drop (len + 16) = ((inp.drop 16).drop (len + 16)).take t := by
            rw [List.drop_take]; congr 1; omega
          have l1 : ¬ (inp.take (32 + len + t)).length < 16 := by
            simp only [List.length_take]; omega
          have l2 : ¬ ((inp.drop 16).take (16 + len + t)).length < len + 16 := by
            simp only [List.length_take, List.length_drop]; omega
          unfold parse1
          rw [if_neg l1, e1, hlen, if_neg hcs, e2, if_neg l2, e3, hdec, e4]

/-- **(b′), ALL scripts, no hypothesis.** If the I/O run succeeds then the bytes it consumed, `s.inp.take n` with
    `n = s'.pos - s.pos`, form a complete stream on which the pure run succeeds, and exactly its output was written.
    (With `noFalseEof` the consumed bytes are all of `s.inp`: `decLoopIO_ok`.) -/
theorem decLoopIO_ok_consumed (A : Aead) (key aad : Bytes) (cs : Nat) : ∀ (fuel ctr : Nat) (s : Src) (k : Snk) (s' : Src) (k' : Snk),
    s.inp.length + 1 ≤ fuel →
    decLoopIO A key aad cs fuel ctr s k = (.ok, s', k') →
    ∃ n ws1, s'.pos = s.pos + n ∧ n ≤ s.inp.length ∧ s'.inp = s.inp.drop n ∧
      (∀ fuel0, n ≤ fuel0 → decLoop A key aad cs fuel0 ctr (s.inp.take n) = (ws1, .ok)) ∧
      k'.out = k.out ++ ws1.flatten := by
  intro fuel
  induction fuel with
  | zero => intro ctr s k s' k' hf; omega
  | succ f ih =>
    intro ctr s k s' k' hf hIO
    rw [decLoopIO_succ] at hIO
    rcases hrr : readRecordIO A key aad cs ctr s with ⟨o, s3⟩
    rw [hrr] at hIO
    obtain ⟨hsc, hchunk, _⟩ := readRecordIO_spec hrr
    cases o with
    | fail e =>
      simp only [Prod.mk.injEq] at hIO
      obtain ⟨rfl, rfl, rfl⟩ := hIO
      have := readRecordIO_fail_kind hrr
      simp at this
    | chunk pt last =>
      obtain ⟨rest', hp1, hi3, hpos3, _⟩ := hchunk pt last rfl
      simp only at hIO
      have hlen := parse1_chunk_len hp1
      rcases hwc : writeChunk k (s3.pos, s3.nreads) pt with ⟨r, k2⟩
      rw [hwc] at hIO
      obtain ⟨p, L, ho, hpp, hpt, _⟩ := writeChunk_spec hwc
      cases r with
      | false => simp at hIO
      | true =>
        simp only at hIO
        have hdrop : s.inp.drop (s.inp.length - rest'.length) = rest' := by
          unfold parse1 at hp1
          split at hp1
          · simp at hp1
          · split at hp1
            · simp at hp1
            · split at hp1
              · simp at hp1
              · rename_i hbody
                split at hp1
                · simp at hp1
                · simp only [POut.chunk.injEq] at hp1
                  obtain ⟨_, _, rfl⟩ := hp1
                  simp only [List.length_drop] at hbody ⊢
                  rw [List.drop_drop]; congr 1; omega
        cases last with
        | true =>
          simp only [if_true, Prod.mk.injEq, true_and] at hIO
          obtain ⟨rfl, rfl⟩ := hIO
          refine ⟨s.inp.length - rest'.length, [pt], by omega, by omega, by rw [hi3, hdrop], ?_, by simp [ho, hpt rfl]⟩
          intro fuel0 hf0
          obtain ⟨f0, rfl⟩ : ∃ f0, fuel0 = f0 + 1 := ⟨fuel0 - 1, by omega⟩
          have := parse1_take hp1 0
          simp only [Nat.add_zero, List.take_zero] at this
          rw [decLoop_succ, this]
          simp
        | false =>
          simp only [Bool.false_eq_true, if_false] at hIO
          obtain ⟨n1, ws1, h1, h2, h3, h4, h5⟩ := ih (ctr+1) s3 k2 s' k' (by rw [hi3]; omega) hIO
          rw [hi3] at h2 h3 h4
          refine ⟨s.inp.length - rest'.length + n1, pt :: ws1, by omega, by omega, ?_, ?_, by rw [h5, ho, hpt rfl]; simp⟩
          · rw [h3, ← List.drop_drop, hdrop]
          · intro fuel0 hf0
            obtain ⟨f0, rfl⟩ : ∃ f0, fuel0 = f0 + 1 := ⟨fuel0 - 1, by omega⟩
            rw [decLoop_succ, parse1_take hp1 n1]
            simp only [Bool.false_eq_true, if_false]
            rw [h4 f0 (by omega)]

/-! ### (f): ordering facts recorded in the sink's log -/

/-- offset just past record `i` of a stream whose chunks are `ws` (a record is 32 bytes longer than its chunk) -/
def recEnd (ws : List Bytes) (i : Nat) : Nat := ((ws.take (i+1)).map (fun w => 32 + w.length)).sum

/-- `LogSegs base ws segs`: `segs` are the log entries in chronological order, grouped by chunk; the entries of the chunk
    `w` whose record starts at source offset `base` all carry the source position just past that record, their sizes sum
    to at most `|w|`, and to exactly `|w|` if any later chunk has an entry group. -/
def LogSegs (base : Nat) : List Bytes → List (List WLog) → Prop
  | _, [] => True
  | [], _ :: _ => False
  | w :: ws, seg :: segs =>
    (∀ e ∈ seg, e.srcPos = base + 32 + w.length) ∧ (seg.map (·.n)).sum ≤ w.length ∧
    (segs ≠ [] → (seg.map (·.n)).sum = w.length) ∧ LogSegs (base + 32 + w.length) ws segs

theorem recEnd_zero (w : Bytes) (ws : List Bytes) : recEnd (w :: ws) 0 = 32 + w.length := by
  simp [recEnd]

theorem recEnd_succ (w : Bytes) (ws : List Bytes) (i : Nat) : recEnd (w :: ws) (i+1) = 32 + w.length + recEnd ws i := by
  simp [recEnd]

/-- index form of `LogSegs` -/
theorem LogSegs.index : ∀ (ws : List Bytes) (segs : List (List WLog)) (base : Nat), LogSegs base ws segs →
    segs.length ≤ ws.length ∧
    ∀ i seg, segs[i]? = some seg → ∃ w, ws[i]? = some w ∧ (∀ e ∈ seg, e.srcPos = base + recEnd ws i) ∧
      (seg.map (·.n)).sum ≤ w.length ∧ (i + 1 < segs.length → (seg.map (·.n)).sum = w.length) := by
  intro ws
  induction ws with
  | nil =>
    intro segs base h
    cases segs with
    | nil => exact ⟨Nat.le_refl _, fun i seg hi => by simp at hi⟩
    | cons a b => simp [LogSegs] at h
  | cons w ws ih =>
    intro segs base h
    cases segs with
    | nil => exact ⟨Nat.zero_le _, fun i seg hi => by simp at hi⟩
    | cons seg0 segs =>
      simp only [LogSegs] at h
      obtain ⟨h1, h2, h3, h4⟩ := h
      obtain ⟨ih1, ih2⟩ := ih segs _ h4
      refine ⟨by simp only [List.length_cons]; omega, ?_⟩
      intro i seg hi
      cases i with
      | zero =>
        simp only [List.getElem?_cons_zero, Option.some.injEq] at hi
        subst hi
        refine ⟨w, rfl, ?_, h2, ?_⟩
        · intro e he; rw [h1 e he, recEnd_zero]; omega
        · intro hl
          apply h3
          intro hn; rw [hn] at hl; simp at hl
      | succ i =>
        simp only [List.getElem?_cons_succ] at hi
        obtain ⟨w', hw', hp, hs1, hs2⟩ := ih2 i seg hi
        refine ⟨w', by simpa using hw', ?_, hs1, ?_⟩
        · intro e he; rw [hp e he, recEnd_succ]; omega
        · intro hl; apply hs2; simp only [List.length_cons] at hl; omega

/-- **Refinement (f), invariant form.** The log entries added by the call, in chronological order, are grouped by chunk;
    every `write()` of chunk `i` happened with the source standing exactly at the end of record `i`: the whole record
    (header, body, tag) had been read and no later record had been touched. Sizes: the entries of a chunk sum to the chunk
    length for every chunk but possibly the last one written, and all sizes together are the bytes appended to `out`. -/
theorem decLoopIO_log (A : Aead) (hA : A.Lawful) (key aad : Bytes) (hk : key.length = 32) (cs : Nat) :
    ∀ (fuel fuel0 ctr : Nat) (s : Src) (k : Snk) (res : Res) (s' : Src) (k' : Snk) (ws : List Bytes) (pres : Res),
    s.noFalseEof → s.inp.length + 1 ≤ fuel → s.inp.length ≤ fuel0 →
    decLoopIO A key aad cs fuel ctr s k = (res, s', k') →
    decLoop A key aad cs fuel0 ctr s.inp = (ws, pres) →
    ∃ segs : List (List WLog), k'.log = segs.flatten.reverse ++ k.log ∧ LogSegs s.pos ws segs ∧
      k'.out.length = k.out.length + (segs.flatten.map (·.n)).sum := by
  intro fuel
  induction fuel with
  | zero => intro fuel0 ctr s k res s' k' ws pres _ hf; omega
  | succ f ih =>
    intro fuel0 ctr s k res s' k' ws pres hnf hf hf0 hIO hP
    rw [← decLoop_fuel_succ A key aad cs fuel0 ctr s.inp hf0, decLoop_succ] at hP
    rw [decLoopIO_succ] at hIO
    rcases hrr : readRecordIO A key aad cs ctr s with ⟨o, s3⟩
    rw [hrr] at hIO
    obtain ⟨hsc, hchunk, _⟩ := readRecordIO_spec hrr
    cases o with
    | fail e =>
      simp only [Prod.mk.injEq] at hIO
      obtain ⟨rfl, rfl, rfl⟩ := hIO
      exact ⟨[], by simp, by simp [LogSegs], by simp⟩
    | chunk pt last =>
      obtain ⟨rest', hp1, hi3, hpos3, hlast⟩ := hchunk pt last rfl
      rw [hp1] at hP
      simp only at hP hIO
      have hrl := parse1_chunk_len_lawful hA hk hp1
      have hs3 : s3.pos = s.pos + 32 + pt.length := by omega
      rcases hwc : writeChunk k (s3.pos, s3.nreads) pt with ⟨r, k2⟩
      rw [hwc] at hIO
      obtain ⟨p, L, ho, hpp, hpt, hlog, hLat, hLsum, _⟩ := writeChunk_spec hwc
      have hple : p.length ≤ pt.length := by
        obtain ⟨t, ht⟩ := hpp
        rw [← ht, List.length_append]; omega
      have hseg : ∀ e ∈ L.reverse, e.srcPos = s.pos + 32 + pt.length := by
        intro e he
        rw [← hs3]; exact (hLat e (List.mem_reverse.mp he)).1
      have hsum : (L.reverse.map (·.n)).sum = p.length := by
        rw [← hLsum, List.map_reverse, List.sum_reverse_nat]
      -- the run stops after this chunk
      have hstop : ∀ ws1, k'.log = k2.log → k'.out = k2.out →
          ∃ segs : List (List WLog), k'.log = segs.flatten.reverse ++ k.log ∧ LogSegs s.pos (pt :: ws1) segs ∧
            k'.out.length = k.out.length + (segs.flatten.map (·.n)).sum := by
        intro ws1 hl1 ho1
        refine ⟨[L.reverse], by rw [hl1, hlog]; simp, ?_, by rw [ho1, ho]; simp [hLsum]⟩
        simp only [LogSegs, ne_eq, not_true_eq_false, false_implies, and_true]
        exact ⟨hseg, by rw [hsum]; exact hple⟩
      cases last with
      | true =>
        have hr : rest' = [] := hlast rfl hnf
        subst hr
        simp only [if_true, List.length_nil, ne_eq, not_true_eq_false, if_false, Prod.mk.injEq] at hP
        obtain ⟨rfl, rfl⟩ := hP
        cases r with
        | false =>
          simp only [Prod.mk.injEq] at hIO; obtain ⟨rfl, rfl, rfl⟩ := hIO
          exact hstop [] rfl rfl
        | true =>
          simp only [if_true, Prod.mk.injEq] at hIO; obtain ⟨rfl, rfl, rfl⟩ := hIO
          exact hstop [] rfl rfl
      | false =>
        simp only [Bool.false_eq_true, if_false, Prod.mk.injEq] at hP
        obtain ⟨rfl, rfl⟩ := hP
        cases r with
        | false =>
          simp only [Prod.mk.injEq] at hIO; obtain ⟨rfl, rfl, rfl⟩ := hIO
          exact hstop _ rfl rfl
        | true =>
          simp only [Bool.false_eq_true, if_false] at hIO
          obtain ⟨segs1, h1, h2, h3⟩ := ih fuel0 (ctr+1) s3 k2 res s' k' _ _ (Src.noFalseEof_of_suffix hnf hsc)
            (by rw [hi3]; omega) (by rw [hi3]; omega) hIO (by rw [hi3])
          refine ⟨L.reverse :: segs1, by rw [h1, hlog]; simp, ?_, ?_⟩
          · simp only [LogSegs]
            refine ⟨hseg, by rw [hsum]; exact hple, fun _ => by rw [hsum, hpt rfl], ?_⟩
            rw [← hs3]; exact h2
          · rw [h3, ho, hpt rfl]
            simp only [List.length_append, List.flatten_cons, List.map_append, List.sum_append_nat, hsum, hpt rfl]
            omega

/-- **Refinement (f), index form.** `segs[i]` = the `write()` calls of chunk `i` (0-based within this call), oldest first;
    each carries `srcPos = s.pos + recEnd ws i`. -/
theorem decLoopIO_order (A : Aead) (hA : A.Lawful) (key aad : Bytes) (hk : key.length = 32) (cs : Nat)
    {fuel fuel0 ctr : Nat} {s s' : Src} {k k' : Snk} {res : Res} {ws : List Bytes} {pres : Res}
    (hnf : s.noFalseEof) (hf : s.inp.length + 1 ≤ fuel) (hf0 : s.inp.length ≤ fuel0)
    (hIO : decLoopIO A key aad cs fuel ctr s k = (res, s', k'))
    (hP : decLoop A key aad cs fuel0 ctr s.inp = (ws, pres)) :
    ∃ segs : List (List WLog), k'.log = segs.flatten.reverse ++ k.log ∧ segs.length ≤ ws.length ∧
      k'.out.length = k.out.length + (segs.flatten.map (·.n)).sum ∧
      ∀ i seg, segs[i]? = some seg → ∃ w, ws[i]? = some w ∧ (∀ e ∈ seg, e.srcPos = s.pos + recEnd ws i) ∧
        (seg.map (·.n)).sum ≤ w.length ∧ (i + 1 < segs.length → (seg.map (·.n)).sum = w.length) := by
  obtain ⟨segs, h1, h2, h3⟩ := decLoopIO_log A hA key aad hk cs fuel fuel0 ctr s k res s' k' ws pres hnf hf hf0 hIO hP
  obtain ⟨h4, h5⟩ := LogSegs.index ws segs s.pos h2
  exact ⟨segs, h1, h4, h3, h5⟩

/-! ### a whole-chunk prefix plus a partial chunk is a byte prefix -/

theorem take_flatten_prefix (ws : List Bytes) (j : Nat) (q : Bytes)
    (h : q = [] ∨ ∃ w, ws[j]? = some w ∧ q <+: w) : (ws.take j).flatten ++ q <+: ws.flatten := by
  rcases h with rfl | ⟨w, hw, t, ht⟩
  · exact ⟨(ws.drop j).flatten, by rw [List.append_nil, ← List.flatten_append, List.take_append_drop]⟩
  · obtain ⟨hj, hwj⟩ := List.getElem?_eq_some_iff.mp hw
    refine ⟨t ++ (ws.drop (j+1)).flatten, ?_⟩
    have h1 : ws = ws.take j ++ w :: ws.drop (j+1) := by
      rw [← hwj, ← List.drop_eq_getElem_cons hj, List.take_append_drop]
    conv => rhs; rw [h1]
    rw [List.flatten_append, List.flatten_cons, ← ht]
    simp only [List.append_assoc]

/-! ### the entry points: everything before the chunk stream is `read_exact` -/

open Generated in
/-- `key_decrypt`, ALL scripts: either the call stops in the header — nothing is written, the result is the pure result
    (`format`, `other`) or an `ioRead` that on a benign script means the file is truncated — or it reaches the chunk stream
    with the source standing just past the 4 + 128 header bytes and both levels holding the same file key. -/
theorem keyDecryptIO_cases {P : Prims} {r rpk : Bytes} {src s' : Src} {k k' : Snk} {res pres : Res} {snd psnd : Option Bytes}
    {writes : List Bytes}
    (hIO : keyDecryptIO P r rpk src k = (res, s', k', snd))
    (hP : keyDecrypt P r rpk src.inp = (writes, pres, psnd)) :
    (k' = k ∧ snd = none ∧ res ≠ .ok ∧ res ≠ .ioWrite ∧
      ((res = pres ∧ psnd = none ∧ writes = [] ∧ res ≠ .ioRead) ∨
       (res = .ioRead ∧ (src.benign → pres = .ioRead ∧ writes = [] ∧ psnd = none)))) ∨
    (∃ (s2 : Src) (pk h spk : Bytes), s2.inp = (src.inp.drop 4).drop handshakeLen ∧ s2.pos = src.pos + 4 + handshakeLen ∧
      4 + handshakeLen ≤ src.inp.length ∧ (∃ pre, src.script = pre ++ s2.script) ∧
      decryptChunksIO P.aead (P.hkdfFile pk h) [] chunkSize s2 k = (res, s', k') ∧
      decryptChunks P.aead (P.hkdfFile pk h) [] chunkSize s2.inp = (writes, pres) ∧
      snd = (if res = .ok then some spk else none) ∧ psnd = (if pres = .ok then some spk else none)) := by
  unfold keyDecryptIO at hIO
  unfold keyDecrypt at hP
  split at hIO
  · -- magic: read failed
    rename_i s1 h4
    simp only [Prod.mk.injEq] at hIO; obtain ⟨rfl, rfl, rfl, rfl⟩ := hIO
    refine Or.inl ⟨rfl, rfl, by simp, by simp, Or.inr ⟨rfl, fun hb => ?_⟩⟩
    have hl := Src.readExact_none_benign hb (Nat.le_refl _) h4
    rw [if_pos hl] at hP
    simp only [Prod.mk.injEq] at hP; obtain ⟨rfl, rfl, rfl⟩ := hP
    exact ⟨rfl, rfl, rfl⟩
  · rename_i magic s1 h4
    obtain ⟨hm, _, hi1, hp1, _, hsc1⟩ := Src.readExact_some _ _ _ _ _ h4
    have hl4 : ¬ src.inp.length < 4 := Nat.not_lt.mpr (Src.readExact_some_len h4)
    rw [if_neg hl4] at hP
    subst hm
    simp only at hP
    split at hIO
    · -- unknown magic
      rename_i hv
      rw [hv] at hP
      simp only [Prod.mk.injEq] at hIO hP; obtain ⟨rfl, rfl, rfl, rfl⟩ := hIO; obtain ⟨rfl, rfl, rfl⟩ := hP
      exact Or.inl ⟨rfl, rfl, by simp, by simp, Or.inl ⟨rfl, rfl, rfl, by simp⟩⟩
    · -- password file given to key_decrypt
      rename_i hv
      rw [hv] at hP
      simp only [Prod.mk.injEq] at hIO hP; obtain ⟨rfl, rfl, rfl, rfl⟩ := hIO; obtain ⟨rfl, rfl, rfl⟩ := hP
      exact Or.inl ⟨rfl, rfl, by simp, by simp, Or.inl ⟨rfl, rfl, rfl, by simp⟩⟩
    · rename_i hv
      rw [hv] at hP
      simp only at hP
      split at hIO
      · -- handshake: read failed
        rename_i s2 hhs
        simp only [Prod.mk.injEq] at hIO; obtain ⟨rfl, rfl, rfl, rfl⟩ := hIO
        refine Or.inl ⟨rfl, rfl, by simp, by simp, Or.inr ⟨rfl, fun hb => ?_⟩⟩
        have hl := Src.readExact_none_benign (Src.benign_of_suffix hb hsc1) (Nat.le_refl _) hhs
        rw [hi1] at hl
        rw [if_pos hl] at hP
        simp only [Prod.mk.injEq] at hP; obtain ⟨rfl, rfl, rfl⟩ := hP
        exact ⟨rfl, rfl, rfl⟩
      · rename_i msg s2 hhs
        obtain ⟨hmsg, _, hi2, hp2, _, hsc2⟩ := Src.readExact_some _ _ _ _ _ hhs
        have hlh : ¬ (src.inp.drop 4).length < handshakeLen := by
          have := Src.readExact_some_len hhs
          rw [hi1] at this; omega
        rw [if_neg hlh] at hP
        rw [hi1] at hmsg hi2
        subst hmsg
        split at hIO
        · -- handshake rejected
          rename_i hrm
          rw [hrm] at hP
          simp only [Prod.mk.injEq] at hIO hP; obtain ⟨rfl, rfl, rfl, rfl⟩ := hIO; obtain ⟨rfl, rfl, rfl⟩ := hP
          exact Or.inl ⟨rfl, rfl, by simp, by simp, Or.inl ⟨rfl, rfl, rfl, by simp⟩⟩
        · rename_i pk spk h hrm
          rw [hrm] at hP
          simp only at hP
          split at hIO
          · rename_i hpk
            rw [if_pos hpk] at hP
            simp only [Prod.mk.injEq] at hIO hP; obtain ⟨rfl, rfl, rfl, rfl⟩ := hIO; obtain ⟨rfl, rfl, rfl⟩ := hP
            exact Or.inl ⟨rfl, rfl, by simp, by simp, Or.inl ⟨rfl, rfl, rfl, by simp⟩⟩
          · rename_i hpk
            rw [if_neg hpk] at hP
            rcases hd : decryptChunksIO P.aead (P.hkdfFile pk h) [] chunkSize s2 k with ⟨res0, s30, k0⟩
            rcases hpd : decryptChunks P.aead (P.hkdfFile pk h) [] chunkSize ((src.inp.drop 4).drop handshakeLen) with ⟨ws0, pres0⟩
            rw [hd] at hIO
            rw [hpd] at hP
            simp only [Prod.mk.injEq] at hIO hP
            obtain ⟨rfl, rfl, rfl, rfl⟩ := hIO; obtain ⟨rfl, rfl, rfl⟩ := hP
            refine Or.inr ⟨s2, pk, h, spk, hi2, by omega, ?_, suffix_trans hsc1 hsc2, hd, by rw [hi2]; exact hpd, rfl, rfl⟩
            simp only [List.length_drop] at hlh; omega

open Generated in
/-- `pass_decrypt`, ALL scripts: as `keyDecryptIO_cases`, with a 4 + 32 byte header; the chunk key is derived from the
    salt that was really read and the associated data is the magic. -/
theorem passDecryptIO_cases {P : Prims} {pw : Bytes} {src s' : Src} {k k' : Snk} {res pres : Res} {writes : List Bytes}
    (hIO : passDecryptIO P pw src k = (res, s', k'))
    (hP : passDecrypt P pw src.inp = (writes, pres)) :
    (k' = k ∧ res ≠ .ok ∧ res ≠ .ioWrite ∧
      ((res = pres ∧ writes = [] ∧ res ≠ .ioRead) ∨
       (res = .ioRead ∧ (src.benign → pres = .ioRead ∧ writes = [])))) ∨
    (∃ (s2 : Src) (salt : Bytes), s2.inp = (src.inp.drop 4).drop 32 ∧ s2.pos = src.pos + 4 + 32 ∧
      4 + 32 ≤ src.inp.length ∧ (∃ pre, src.script = pre ++ s2.script) ∧
      decryptChunksIO P.aead (P.kdf pw salt) (src.inp.take 4) chunkSize s2 k = (res, s', k') ∧
      decryptChunks P.aead (P.kdf pw salt) (src.inp.take 4) chunkSize s2.inp = (writes, pres)) := by
  unfold passDecryptIO at hIO
  unfold passDecrypt at hP
  split at hIO
  · rename_i s1 h4
    simp only [Prod.mk.injEq] at hIO; obtain ⟨rfl, rfl, rfl⟩ := hIO
    refine Or.inl ⟨rfl, by simp, by simp, Or.inr ⟨rfl, fun hb => ?_⟩⟩
    have hl := Src.readExact_none_benign hb (Nat.le_refl _) h4
    rw [if_pos hl] at hP
    simp only [Prod.mk.injEq] at hP; obtain ⟨rfl, rfl⟩ := hP
    exact ⟨rfl, rfl⟩
  · rename_i magic s1 h4
    obtain ⟨hm, _, hi1, hp1, _, hsc1⟩ := Src.readExact_some _ _ _ _ _ h4
    have hl4 : ¬ src.inp.length < 4 := Nat.not_lt.mpr (Src.readExact_some_len h4)
    rw [if_neg hl4] at hP
    subst hm
    simp only at hP
    split at hIO
    · rename_i hv
      rw [hv] at hP
      simp only [Prod.mk.injEq] at hIO hP; obtain ⟨rfl, rfl, rfl⟩ := hIO; obtain ⟨rfl, rfl⟩ := hP
      exact Or.inl ⟨rfl, by simp, by simp, Or.inl ⟨rfl, rfl, by simp⟩⟩
    · rename_i hv
      rw [hv] at hP
      simp only [Prod.mk.injEq] at hIO hP; obtain ⟨rfl, rfl, rfl⟩ := hIO; obtain ⟨rfl, rfl⟩ := hP
      exact Or.inl ⟨rfl, by simp, by simp, Or.inl ⟨rfl, rfl, by simp⟩⟩
    · rename_i hv
      rw [hv] at hP
      simp only at hP
      split at hIO
      · rename_i s2 hs
        simp only [Prod.mk.injEq] at hIO; obtain ⟨rfl, rfl, rfl⟩ := hIO
        refine Or.inl ⟨rfl, by simp, by simp, Or.inr ⟨rfl, fun hb => ?_⟩⟩
        have hl := Src.readExact_none_benign (Src.benign_of_suffix hb hsc1) (Nat.le_refl _) hs
        rw [hi1] at hl
        rw [if_pos hl] at hP
        simp only [Prod.mk.injEq] at hP; obtain ⟨rfl, rfl⟩ := hP
        exact ⟨rfl, rfl⟩
      · rename_i salt s2 hs
        obtain ⟨hsalt, _, hi2, hp2, _, hsc2⟩ := Src.readExact_some _ _ _ _ _ hs
        have hlh : ¬ (src.inp.drop 4).length < 32 := by
          have := Src.readExact_some_len hs
          rw [hi1] at this; omega
        rw [if_neg hlh] at hP
        rw [hi1] at hsalt hi2
        subst hsalt
        refine Or.inr ⟨s2, _, hi2, by omega, ?_, suffix_trans hsc1 hsc2, hIO, by rw [hi2]; exact hP⟩
        simp only [List.length_drop] at hlh; omega

/-! ### the entry points on success, without reference to a pure run (for the hypothesis-free form (b′)) -/

open Generated in
/-- the pure `key_decrypt` once the header is known to be acceptable -/
theorem keyDecrypt_of_header {P : Prims} {r rpk inp pk spk h : Bytes}
    (hlen : 4 + handshakeLen ≤ inp.length) (hv : validFileFormat (inp.take 4) = some true)
    (hrm : Noise.readMessage P (inp.take 4) r rpk ((inp.drop 4).take handshakeLen) = .ok (pk, spk, h))
    (hpk : pk.length = 32) :
    keyDecrypt P r rpk inp =
      ((decryptChunks P.aead (P.hkdfFile pk h) [] chunkSize ((inp.drop 4).drop handshakeLen)).1,
       (decryptChunks P.aead (P.hkdfFile pk h) [] chunkSize ((inp.drop 4).drop handshakeLen)).2,
       if (decryptChunks P.aead (P.hkdfFile pk h) [] chunkSize ((inp.drop 4).drop handshakeLen)).2 = .ok then some spk else none) := by
  unfold keyDecrypt
  have h1 : ¬ inp.length < 4 := by omega
  have h2 : ¬ (inp.drop 4).length < handshakeLen := by simp only [List.length_drop]; omega
  have h3 : ¬ pk.length ≠ 32 := by simp [hpk]
  rw [if_neg h1]
  simp only [hv, if_neg h2, hrm, if_neg h3]

open Generated in
/-- a successful `key_decrypt` at the I/O level, ALL scripts: the header was read as it is and accepted -/
theorem keyDecryptIO_ok {P : Prims} {r rpk : Bytes} {src s' : Src} {k k' : Snk} {snd : Option Bytes}
    (hIO : keyDecryptIO P r rpk src k = (.ok, s', k', snd)) :
    ∃ (s2 : Src) (pk h spk : Bytes), 4 + handshakeLen ≤ src.inp.length ∧ validFileFormat (src.inp.take 4) = some true ∧
      Noise.readMessage P (src.inp.take 4) r rpk ((src.inp.drop 4).take handshakeLen) = .ok (pk, spk, h) ∧ pk.length = 32 ∧
      s2.inp = (src.inp.drop 4).drop handshakeLen ∧ s2.pos = src.pos + 4 + handshakeLen ∧
      decryptChunksIO P.aead (P.hkdfFile pk h) [] chunkSize s2 k = (.ok, s', k') ∧ snd = some spk := by
  unfold keyDecryptIO at hIO
  split at hIO
  · simp at hIO
  · rename_i magic s1 h4
    obtain ⟨hm, _, hi1, hp1, _, _⟩ := Src.readExact_some _ _ _ _ _ h4
    have hl4 := Src.readExact_some_len h4
    subst hm
    split at hIO
    · simp at hIO
    · simp at hIO
    · rename_i hv
      split at hIO
      · simp at hIO
      · rename_i msg s2 hhs
        obtain ⟨hmsg, _, hi2, hp2, _, _⟩ := Src.readExact_some _ _ _ _ _ hhs
        have hlh := Src.readExact_some_len hhs
        rw [hi1] at hmsg hi2 hlh
        subst hmsg
        split at hIO
        · simp at hIO
        · rename_i pk spk h hrm
          split at hIO
          · simp at hIO
          · rename_i hpk
            rcases hd : decryptChunksIO P.aead (P.hkdfFile pk h) [] chunkSize s2 k with ⟨res0, s30, k0⟩
            rw [hd] at hIO
            simp only [Prod.mk.injEq] at hIO
            obtain ⟨rfl, rfl, rfl, rfl⟩ := hIO
            refine ⟨s2, pk, h, spk, ?_, hv, hrm, by simpa using hpk, hi2, by omega, hd, by simp⟩
            simp only [List.length_drop] at hlh; omega

open Generated in
theorem passDecrypt_of_header {P : Prims} {pw inp : Bytes}
    (hlen : 4 + 32 ≤ inp.length) (hv : validFileFormat (inp.take 4) = some false) :
    passDecrypt P pw inp =
      decryptChunks P.aead (P.kdf pw ((inp.drop 4).take 32)) (inp.take 4) chunkSize ((inp.drop 4).drop 32) := by
  unfold passDecrypt
  have h1 : ¬ inp.length < 4 := by omega
  have h2 : ¬ (inp.drop 4).length < 32 := by simp only [List.length_drop]; omega
  rw [if_neg h1]
  simp only [hv, if_neg h2]

open Generated in
theorem passDecryptIO_ok {P : Prims} {pw : Bytes} {src s' : Src} {k k' : Snk}
    (hIO : passDecryptIO P pw src k = (.ok, s', k')) :
    ∃ (s2 : Src), 4 + 32 ≤ src.inp.length ∧ validFileFormat (src.inp.take 4) = some false ∧
      s2.inp = (src.inp.drop 4).drop 32 ∧ s2.pos = src.pos + 4 + 32 ∧
      decryptChunksIO P.aead (P.kdf pw ((src.inp.drop 4).take 32)) (src.inp.take 4) chunkSize s2 k = (.ok, s', k') := by
  unfold passDecryptIO at hIO
  split at hIO
  · simp at hIO
  · rename_i magic s1 h4
    obtain ⟨hm, _, hi1, hp1, _, _⟩ := Src.readExact_some _ _ _ _ _ h4
    have hl4 := Src.readExact_some_len h4
    subst hm
    split at hIO
    · simp at hIO
    · simp at hIO
    · rename_i hv
      split at hIO
      · simp at hIO
      · rename_i salt s2 hs
        obtain ⟨hsalt, _, hi2, hp2, _, _⟩ := Src.readExact_some _ _ _ _ _ hs
        have hlh := Src.readExact_some_len hs
        rw [hi1] at hsalt hi2 hlh
        subst hsalt
        refine ⟨s2, ?_, hv, hi2, by omega, hIO⟩
        simp only [List.length_drop] at hlh; omega

/-- truncating a file after its header: the header bytes and the chunk stream of the truncated file -/
theorem take_header (inp : Bytes) (a b n : Nat) (hlen : a + b ≤ inp.length) :
    (inp.take (a + b + n)).take a = inp.take a ∧
    ((inp.take (a + b + n)).drop a).take b = (inp.drop a).take b ∧
    ((inp.take (a + b + n)).drop a).drop b = ((inp.drop a).drop b).take n ∧
    a + b ≤ (inp.take (a + b + n)).length := by
  refine ⟨?_, ?_, ?_, ?_⟩
  · rw [List.take_take]; congr 1; omega
  · rw [List.drop_take, List.take_take]; congr 1; omega
  · rw [List.drop_take, List.drop_take]; congr 1; omega
  · rw [List.length_take]; omega

end Kestrel
