/-
  Basic facts about the scripted sources and sinks of `KestrelModel/IO.lean`:
  `Src.read`, `Src.readExact` (= `read_exact`), `Snk.write`, `Snk.writeAll` (= `write_all`), `Snk.flush`.

  Every lemma is for ALL scripts unless a `benign` / `faultFree` / `noFalseEof` hypothesis is listed.
-/
import KestrelModel.IO
namespace Kestrel

/-! ### script classes -/

/-- only short reads and (retried) interruptions -/
def Src.benign (s : Src) : Prop := ∀ e ∈ s.script, (∃ n, e = .data n ∧ 1 ≤ n) ∨ e = .errInterrupted

/-- only short reads -/
def Src.faultFree (s : Src) : Prop := ∀ e ∈ s.script, ∃ n, e = .data n ∧ 1 ≤ n

/-- the reader never reports end-of-stream (`Ok(0)`) by script; hard errors and interruptions are allowed.
    (With an exhausted script a read returns 0 bytes only when no data remains.) -/
def Src.noFalseEof (s : Src) : Prop := ∀ e ∈ s.script, e ≠ .data 0

def Snk.benign (k : Snk) : Prop :=
  (∀ e ∈ k.ws, (∃ n, e = .accept n ∧ 1 ≤ n) ∨ e = .errInterrupted) ∧ (∀ e ∈ k.fs, e = .ok)

def Snk.faultFree (k : Snk) : Prop :=
  (∀ e ∈ k.ws, ∃ n, e = .accept n ∧ 1 ≤ n) ∧ (∀ e ∈ k.fs, e = .ok)

theorem Src.faultFree.benign {s : Src} (h : s.faultFree) : s.benign :=
  fun e he => Or.inl (h e he)

theorem Src.benign.noFalseEof {s : Src} (h : s.benign) : s.noFalseEof := by
  intro e he heq
  rcases h e he with ⟨n, hn, h1⟩ | hi
  · rw [heq] at hn; simp only [RdEv.data.injEq] at hn; omega
  · rw [heq] at hi; simp at hi

theorem Src.faultFree.noFalseEof {s : Src} (h : s.faultFree) : s.noFalseEof := h.benign.noFalseEof

theorem Snk.faultFree.benign {k : Snk} (h : k.faultFree) : k.benign :=
  ⟨fun e he => Or.inl (h.1 e he), h.2⟩

/-- the three classes only look at the script, and pass to any later state of the same source -/
theorem Src.benign_of_suffix {s s' : Src} (h : s.benign) (hs : ∃ pre, s.script = pre ++ s'.script) : s'.benign := by
  obtain ⟨pre, hp⟩ := hs
  intro e he; exact h e (by rw [hp]; exact List.mem_append_right _ he)

theorem Src.faultFree_of_suffix {s s' : Src} (h : s.faultFree) (hs : ∃ pre, s.script = pre ++ s'.script) : s'.faultFree := by
  obtain ⟨pre, hp⟩ := hs
  intro e he; exact h e (by rw [hp]; exact List.mem_append_right _ he)

theorem Src.noFalseEof_of_suffix {s s' : Src} (h : s.noFalseEof) (hs : ∃ pre, s.script = pre ++ s'.script) : s'.noFalseEof := by
  obtain ⟨pre, hp⟩ := hs
  intro e he; exact h e (by rw [hp]; exact List.mem_append_right _ he)

theorem Snk.benign_of_suffix {k k' : Snk} (h : k.benign) (hw : ∃ pre, k.ws = pre ++ k'.ws)
    (hf : ∃ pre, k.fs = pre ++ k'.fs) : k'.benign := by
  obtain ⟨pw, hpw⟩ := hw
  obtain ⟨pf, hpf⟩ := hf
  exact ⟨fun e he => h.1 e (by rw [hpw]; exact List.mem_append_right _ he),
         fun e he => h.2 e (by rw [hpf]; exact List.mem_append_right _ he)⟩

theorem Snk.faultFree_of_suffix {k k' : Snk} (h : k.faultFree) (hw : ∃ pre, k.ws = pre ++ k'.ws)
    (hf : ∃ pre, k.fs = pre ++ k'.fs) : k'.faultFree := by
  obtain ⟨pw, hpw⟩ := hw
  obtain ⟨pf, hpf⟩ := hf
  exact ⟨fun e he => h.1 e (by rw [hpw]; exact List.mem_append_right _ he),
         fun e he => h.2 e (by rw [hpf]; exact List.mem_append_right _ he)⟩

theorem suffix_trans {α} {a b c : List α} (h1 : ∃ pre, a = pre ++ b) (h2 : ∃ pre, b = pre ++ c) : ∃ pre, a = pre ++ c := by
  obtain ⟨p, rfl⟩ := h1
  obtain ⟨q, rfl⟩ := h2
  exact ⟨p ++ q, by simp⟩

/-! ### `Src.read` -/

/-- a successful `read()`: a prefix of the remaining data of length ≤ cap; the position advances by exactly that much -/
theorem Src.read_got {s s' : Src} {cap : Nat} {b : Bytes} (h : s.read cap = (.got b, s')) :
    ∃ m, m ≤ cap ∧ m ≤ s.inp.length ∧ b = s.inp.take m ∧ b.length = m ∧ s'.inp = s.inp.drop m ∧ s'.pos = s.pos + m ∧
      s'.nreads = s.nreads + 1 ∧ ∃ pre, s.script = pre ++ s'.script := by
  unfold Src.read at h
  split at h
  · rename_i hs
    simp only [Prod.mk.injEq, RdRes.got.injEq] at h
    obtain ⟨rfl, rfl⟩ := h
    refine ⟨min cap s.inp.length, Nat.min_le_left _ _, Nat.min_le_right _ _, List.take_eq_take_min, ?_, ?_, rfl, rfl, ⟨[], by simp [hs]⟩⟩
    · simp [List.length_take]
    · show s.inp.drop cap = s.inp.drop (min cap s.inp.length)
      rcases Nat.le_total cap s.inp.length with hle | hle
      · rw [Nat.min_eq_left hle]
      · rw [Nat.min_eq_right hle, List.drop_eq_nil_of_le hle, List.drop_eq_nil_of_le (Nat.le_refl _)]
  · rename_i n sc hs
    simp only [Prod.mk.injEq, RdRes.got.injEq] at h
    obtain ⟨rfl, rfl⟩ := h
    refine ⟨min (min n cap) s.inp.length, Nat.le_trans (Nat.min_le_left _ _) (Nat.min_le_right _ _), Nat.min_le_right _ _,
      List.take_eq_take_min, ?_, ?_, rfl, rfl, ⟨[.data n], by simp [hs]⟩⟩
    · simp [List.length_take]
    · show s.inp.drop (min n cap) = s.inp.drop (min (min n cap) s.inp.length)
      rcases Nat.le_total (min n cap) s.inp.length with hle | hle
      · rw [Nat.min_eq_left hle]
      · rw [Nat.min_eq_right hle, List.drop_eq_nil_of_le hle, List.drop_eq_nil_of_le (Nat.le_refl _)]
  · simp at h
  · simp at h

theorem Src.read_err {s s' : Src} {cap : Nat} (h : s.read cap = (.err, s')) :
    s'.inp = s.inp ∧ s'.pos = s.pos ∧ s'.nreads = s.nreads + 1 ∧ s.script = .errOther :: s'.script := by
  unfold Src.read at h
  split at h
  · simp at h
  · simp at h
  · rename_i sc hs
    simp only [Prod.mk.injEq, true_and] at h
    subst h; exact ⟨rfl, rfl, rfl, hs⟩
  · simp at h

theorem Src.read_interrupted {s s' : Src} {cap : Nat} (h : s.read cap = (.interrupted, s')) :
    s'.inp = s.inp ∧ s'.pos = s.pos ∧ s'.nreads = s.nreads + 1 ∧ s.script = .errInterrupted :: s'.script := by
  unfold Src.read at h
  split at h
  · simp at h
  · simp at h
  · simp at h
  · rename_i sc hs
    simp only [Prod.mk.injEq, true_and] at h
    subst h; exact ⟨rfl, rfl, rfl, hs⟩

/-- without a scripted `Ok(0)`, a read with a non-empty buffer returns 0 bytes only at the real end of the data -/
theorem Src.read_got_zero {s s' : Src} {cap : Nat} {b : Bytes} (h : s.read cap = (.got b, s'))
    (hs : s.noFalseEof) (hcap : 1 ≤ cap) (hb : b.length = 0) : s.inp = [] := by
  unfold Src.read at h
  split at h
  · simp only [Prod.mk.injEq, RdRes.got.injEq] at h
    obtain ⟨rfl, _⟩ := h
    simp only [List.length_take] at hb
    exact List.eq_nil_of_length_eq_zero (by omega)
  · rename_i n sc hsc
    simp only [Prod.mk.injEq, RdRes.got.injEq] at h
    obtain ⟨rfl, _⟩ := h
    have hn : n ≠ 0 := fun h0 => hs (.data n) (by rw [hsc]; simp) (by rw [h0])
    simp only [List.length_take] at hb
    exact List.eq_nil_of_length_eq_zero (by omega)
  · simp at h
  · simp at h

/-- a fault-free source answers a 1-byte read with the next byte (or nothing at the end of the data) -/
theorem Src.read_one_faultFree {s : Src} (hs : s.faultFree) :
    ∃ s', s.read 1 = (.got (s.inp.take 1), s') ∧ s'.faultFree := by
  unfold Src.read
  split
  · rename_i hsc
    exact ⟨_, rfl, fun e he => hs e he⟩
  · rename_i n sc hsc
    obtain ⟨n', hn', h1⟩ := hs (.data n) (by rw [hsc]; simp)
    simp only [RdEv.data.injEq] at hn'
    subst hn'
    have : min n 1 = 1 := by omega
    simp only [this]
    exact ⟨_, rfl, fun e he => hs e (by rw [hsc]; exact List.mem_cons_of_mem _ he)⟩
  · rename_i sc hsc
    obtain ⟨n', hn', _⟩ := hs .errOther (by rw [hsc]; simp)
    simp at hn'
  · rename_i sc hsc
    obtain ⟨n', hn', _⟩ := hs .errInterrupted (by rw [hsc]; simp)
    simp at hn'

/-! ### `Src.readExact` -/

/-- whatever `read_exact` returns, the source has only moved forward: it never un-reads, the position counts
    exactly the bytes consumed, and the script is only consumed from the front -/
theorem Src.readExact_frame : ∀ (fuel : Nat) (s : Src) (need : Nat) (r : Option Bytes) (s' : Src),
    Src.readExact fuel s need = (r, s') →
    ∃ m, m ≤ s.inp.length ∧ s'.inp = s.inp.drop m ∧ s'.pos = s.pos + m ∧ s.nreads ≤ s'.nreads ∧
      ∃ pre, s.script = pre ++ s'.script := by
  intro fuel
  induction fuel with
  | zero =>
    intro s need r s' h
    simp only [Src.readExact] at h
    split at h <;> (simp only [Prod.mk.injEq] at h; obtain ⟨_, rfl⟩ := h; exact ⟨0, by simp, by simp, rfl, Nat.le_refl _, [], rfl⟩)
  | succ f ih =>
    intro s need r s' h
    simp only [Src.readExact] at h
    split at h
    · simp only [Prod.mk.injEq] at h; obtain ⟨_, rfl⟩ := h; exact ⟨0, by simp, by simp, rfl, Nat.le_refl _, [], rfl⟩
    · split at h
      · rename_i s1 hrd
        simp only [Prod.mk.injEq] at h; obtain ⟨_, rfl⟩ := h
        obtain ⟨hi, hp, hn, hsc⟩ := Src.read_err hrd
        exact ⟨0, by simp, by simp [hi], by simp [hp], by omega, [.errOther], by simp [hsc]⟩
      · rename_i s1 hrd
        obtain ⟨hi, hp, hn, hsc⟩ := Src.read_interrupted hrd
        obtain ⟨m, hm, hi', hp', hn', pre, hsc'⟩ := ih s1 need r s' h
        exact ⟨m, by rw [← hi]; exact hm, by rw [hi', hi], by rw [hp', hp], by omega, .errInterrupted :: pre, by rw [hsc, hsc']; rfl⟩
      · rename_i b s1 hrd
        obtain ⟨m, _, hm, _, _, hi, hp, hn, pre, hsc⟩ := Src.read_got hrd
        split at h
        · simp only [Prod.mk.injEq] at h; obtain ⟨_, rfl⟩ := h
          exact ⟨m, hm, hi, hp, by omega, pre, hsc⟩
        · have key : ∀ r2 s2, Src.readExact f s1 (need - b.length) = (r2, s2) →
              ∃ m, m ≤ s.inp.length ∧ s2.inp = s.inp.drop m ∧ s2.pos = s.pos + m ∧ s.nreads ≤ s2.nreads ∧
                ∃ pre, s.script = pre ++ s2.script := by
            intro r2 s2 h2
            obtain ⟨m2, hm2, hi2, hp2, hn2, pre2, hsc2⟩ := ih s1 _ r2 s2 h2
            rw [hi, List.length_drop] at hm2
            exact ⟨m + m2, by omega, by rw [hi2, hi, List.drop_drop], by rw [hp2, hp]; omega, by omega,
              pre ++ pre2, by rw [hsc, hsc2, List.append_assoc]⟩
          split at h
          · rename_i r2 s2 h2
            simp only [Prod.mk.injEq] at h; obtain ⟨_, rfl⟩ := h
            exact key _ _ h2
          · rename_i s2 h2
            simp only [Prod.mk.injEq] at h; obtain ⟨_, rfl⟩ := h
            exact key _ _ h2

/-- a successful `read_exact(need)` returns exactly the next `need` bytes and consumes exactly those -/
theorem Src.readExact_some : ∀ (fuel : Nat) (s : Src) (need : Nat) (b : Bytes) (s' : Src),
    Src.readExact fuel s need = (some b, s') →
    b = s.inp.take need ∧ b.length = need ∧ s'.inp = s.inp.drop need ∧ s'.pos = s.pos + need ∧
      s.nreads ≤ s'.nreads ∧ ∃ pre, s.script = pre ++ s'.script := by
  intro fuel
  induction fuel with
  | zero =>
    intro s need b s' h
    simp only [Src.readExact] at h
    split at h
    · rename_i h0
      simp only [Prod.mk.injEq, Option.some.injEq] at h; obtain ⟨rfl, rfl⟩ := h
      subst h0; exact ⟨by simp, rfl, by simp, rfl, Nat.le_refl _, [], rfl⟩
    · simp at h
  | succ f ih =>
    intro s need b s' h
    simp only [Src.readExact] at h
    split at h
    · rename_i h0
      simp only [Prod.mk.injEq, Option.some.injEq] at h; obtain ⟨rfl, rfl⟩ := h
      subst h0; exact ⟨by simp, rfl, by simp, rfl, Nat.le_refl _, [], rfl⟩
    · rename_i hne
      split at h
      · simp at h
      · rename_i s1 hrd
        obtain ⟨hi, hp, hn, hsc⟩ := Src.read_interrupted hrd
        obtain ⟨hb, hbl, hi', hp', hn', pre, hsc'⟩ := ih s1 need b s' h
        exact ⟨by rw [hb, hi], hbl, by rw [hi', hi], by rw [hp', hp], by omega, .errInterrupted :: pre, by rw [hsc, hsc']; rfl⟩
      · rename_i b1 s1 hrd
        obtain ⟨m, hmc, hm, hb1, hb1l, hi, hp, hn, pre, hsc⟩ := Src.read_got hrd
        split at h
        · simp at h
        · split at h
          · rename_i r2 s2 h2
            simp only [Prod.mk.injEq, Option.some.injEq] at h; obtain ⟨rfl, rfl⟩ := h
            obtain ⟨hr2, hr2l, hi2, hp2, hn2, pre2, hsc2⟩ := ih s1 _ r2 s2 h2
            rw [hb1l] at hr2 hr2l hi2 hp2
            have hnm : need = m + (need - m) := by omega
            refine ⟨?_, by rw [List.length_append, hb1l, hr2l]; omega, ?_, by rw [hp2, hp]; omega, by omega,
              pre ++ pre2, by rw [hsc, hsc2, List.append_assoc]⟩
            · rw [hb1, hr2, hi]
              conv => rhs; rw [hnm, List.take_add]
            · rw [hi2, hi, List.drop_drop]; congr 1; omega
          · simp at h

/-- a failed `read_exact` never un-reads -/
theorem Src.readExact_none_inp {fuel : Nat} {s s' : Src} {need : Nat}
    (h : Src.readExact fuel s need = (none, s')) : ∃ m, s'.inp = s.inp.drop m := by
  obtain ⟨m, _, hi, _⟩ := Src.readExact_frame fuel s need none s' h
  exact ⟨m, hi⟩

/-- on a benign script (short reads, interruptions) `read_exact` succeeds whenever enough data remains -/
theorem Src.readExact_benign_run : ∀ (fuel : Nat) (s : Src) (need : Nat), s.benign → s.fuel need ≤ fuel →
    need ≤ s.inp.length → ∃ s', Src.readExact fuel s need = (some (s.inp.take need), s') := by
  intro fuel
  induction fuel with
  | zero => intro s need _ hf _; simp only [Src.fuel] at hf; omega
  | succ f ih =>
    intro s need hb hf hlen
    simp only [Src.fuel] at hf
    simp only [Src.readExact]
    split
    · rename_i h0; subst h0; exact ⟨s, by simp⟩
    · rename_i hne
      rcases hrd : s.read need with ⟨r, s1⟩
      cases r with
      | err =>
        obtain ⟨_, _, _, hsc⟩ := Src.read_err hrd
        rcases hb .errOther (by rw [hsc]; simp) with ⟨n, hn, _⟩ | hn <;> simp at hn
      | interrupted =>
        obtain ⟨hi, _, _, hsc⟩ := Src.read_interrupted hrd
        have hb1 : s1.benign := Src.benign_of_suffix hb ⟨[.errInterrupted], by rw [hsc]; rfl⟩
        have hl : s.script.length = s1.script.length + 1 := by rw [hsc]; rfl
        obtain ⟨s', hs'⟩ := ih s1 need hb1 (by simp only [Src.fuel]; omega) (by rw [hi]; exact hlen)
        exact ⟨s', by simp only [hs', hi]⟩
      | got b =>
        -- which bytes: depends on the script head
        have hbl : b.length ≠ 0 ∧ b.length ≤ need ∧ s1.script.length + (need - b.length) + 1 ≤ f := by
          unfold Src.read at hrd
          split at hrd
          · rename_i hsc
            simp only [Prod.mk.injEq, RdRes.got.injEq] at hrd
            obtain ⟨rfl, rfl⟩ := hrd
            simp only [List.length_take, hsc, List.length_nil] at hf ⊢
            omega
          · rename_i n sc hsc
            simp only [Prod.mk.injEq, RdRes.got.injEq] at hrd
            obtain ⟨rfl, rfl⟩ := hrd
            rcases hb (.data n) (by rw [hsc]; simp) with ⟨n', hn', h1⟩ | hn'
            · simp only [RdEv.data.injEq] at hn'; subst hn'
              simp only [List.length_take, hsc, List.length_cons] at hf ⊢
              omega
            · simp at hn'
          · simp at hrd
          · simp at hrd
        obtain ⟨m, hmc, hm, hb1, hb1l, hi, hp, hn, pre, hsc⟩ := Src.read_got hrd
        have hbn : s1.benign := Src.benign_of_suffix hb ⟨pre, hsc⟩
        obtain ⟨s', hs'⟩ := ih s1 (need - b.length) hbn (by simp only [Src.fuel]; exact hbl.2.2)
          (by rw [hi, List.length_drop]; omega)
        refine ⟨s', ?_⟩
        simp only [if_neg hbl.1, hs']
        congr 2
        rw [hb1l, hi, hb1]
        have hnm : need = m + (need - m) := by omega
        conv => rhs; rw [hnm, List.take_add]

theorem Src.readExact_benign {fuel : Nat} {s : Src} {need : Nat} (hb : s.benign) (hf : s.fuel need ≤ fuel)
    (hlen : need ≤ s.inp.length) :
    ∃ s', Src.readExact fuel s need = (some (s.inp.take need), s') ∧ s'.benign := by
  obtain ⟨s', hs'⟩ := Src.readExact_benign_run fuel s need hb hf hlen
  obtain ⟨_, _, _, _, _, hsc⟩ := Src.readExact_some _ _ _ _ _ hs'
  exact ⟨s', hs', Src.benign_of_suffix hb hsc⟩

theorem Src.readExact_faultFree {fuel : Nat} {s : Src} {need : Nat} (hb : s.faultFree) (hf : s.fuel need ≤ fuel)
    (hlen : need ≤ s.inp.length) :
    ∃ s', Src.readExact fuel s need = (some (s.inp.take need), s') ∧ s'.faultFree := by
  obtain ⟨s', hs'⟩ := Src.readExact_benign_run fuel s need hb.benign hf hlen
  obtain ⟨_, _, _, _, _, hsc⟩ := Src.readExact_some _ _ _ _ _ hs'
  exact ⟨s', hs', Src.faultFree_of_suffix hb hsc⟩

/-- if a `read_exact` succeeded, enough data was there -/
theorem Src.readExact_some_len {fuel : Nat} {s s' : Src} {need : Nat} {b : Bytes}
    (h : Src.readExact fuel s need = (some b, s')) : need ≤ s.inp.length := by
  obtain ⟨hb, hbl, _⟩ := Src.readExact_some _ _ _ _ _ h
  rw [hb, List.length_take] at hbl; omega

/-- on a benign script `read_exact` fails when (and, by `readExact_benign`, only when) the data is too short -/
theorem Src.readExact_short {fuel : Nat} {s : Src} {need : Nat} (hlen : s.inp.length < need) :
    ∃ s', Src.readExact fuel s need = (none, s') := by
  rcases h : Src.readExact fuel s need with ⟨r, s'⟩
  cases r with
  | none => exact ⟨s', rfl⟩
  | some b => have := Src.readExact_some_len h; omega

theorem Src.readExact_short_benign {fuel : Nat} {s : Src} {need : Nat} (hb : s.benign) (hlen : s.inp.length < need) :
    ∃ s', Src.readExact fuel s need = (none, s') ∧ s'.benign := by
  obtain ⟨s', hs'⟩ := Src.readExact_short (fuel := fuel) hlen
  obtain ⟨_, _, _, _, _, hsc⟩ := Src.readExact_frame _ _ _ _ _ hs'
  exact ⟨s', hs', Src.benign_of_suffix hb hsc⟩

theorem Src.readExact_short_faultFree {fuel : Nat} {s : Src} {need : Nat} (hb : s.faultFree) (hlen : s.inp.length < need) :
    ∃ s', Src.readExact fuel s need = (none, s') ∧ s'.faultFree := by
  obtain ⟨s', hs'⟩ := Src.readExact_short (fuel := fuel) hlen
  obtain ⟨_, _, _, _, _, hsc⟩ := Src.readExact_frame _ _ _ _ _ hs'
  exact ⟨s', hs', Src.faultFree_of_suffix hb hsc⟩

/-- on a benign script a failed `read_exact` (with the fuel the model uses) means the data is too short -/
theorem Src.readExact_none_benign {fuel : Nat} {s s' : Src} {need : Nat} (hb : s.benign) (hf : s.fuel need ≤ fuel)
    (h : Src.readExact fuel s need = (none, s')) : s.inp.length < need := by
  rcases Nat.lt_or_ge s.inp.length need with hl | hl
  · exact hl
  · obtain ⟨s'', hs'', _⟩ := Src.readExact_benign hb hf hl
    rw [h] at hs''; simp at hs''

/-! ### `Snk.write` -/

theorem Snk.write_wrote {k k' : Snk} {at_ : Nat × Nat} {b : Bytes} {n : Nat} (h : k.write at_ b = (.wrote n, k')) :
    n ≤ b.length ∧ k'.out = k.out ++ b.take n ∧ k'.log = ⟨at_.1, at_.2, n⟩ :: k.log ∧ k'.fs = k.fs ∧
      k'.flushes = k.flushes ∧ (∃ pre, k.ws = pre ++ k'.ws) ∧ (k.ws = [] → n = b.length) ∧
      (∀ a ws, k.ws = .accept a :: ws → n = min a b.length ∧ k'.ws = ws) := by
  unfold Snk.write at h
  split at h
  · rename_i hw
    simp only [Prod.mk.injEq, WrRes.wrote.injEq] at h
    obtain ⟨rfl, rfl⟩ := h
    exact ⟨Nat.le_refl _, by simp, rfl, rfl, rfl, ⟨[], by simp⟩, fun _ => rfl, fun a ws h' => by rw [hw] at h'; simp at h'⟩
  · rename_i a ws hw
    simp only [Prod.mk.injEq, WrRes.wrote.injEq] at h
    obtain ⟨rfl, rfl⟩ := h
    refine ⟨Nat.min_le_right _ _, rfl, rfl, rfl, rfl, ⟨[.accept a], by simp [hw]⟩, fun h' => by rw [hw] at h'; simp at h', ?_⟩
    intro a' ws' h'
    rw [hw] at h'
    simp only [List.cons.injEq, WrEv.accept.injEq] at h'
    obtain ⟨rfl, rfl⟩ := h'
    exact ⟨rfl, rfl⟩
  · simp at h
  · simp at h

theorem Snk.write_err {k k' : Snk} {at_ : Nat × Nat} {b : Bytes} (h : k.write at_ b = (.err, k')) :
    k'.out = k.out ∧ k'.log = k.log ∧ k'.fs = k.fs ∧ k'.flushes = k.flushes ∧ k.ws = .errOther :: k'.ws := by
  unfold Snk.write at h
  split at h
  · simp at h
  · simp at h
  · rename_i ws hw
    simp only [Prod.mk.injEq, true_and] at h
    subst h; exact ⟨rfl, rfl, rfl, rfl, hw⟩
  · simp at h

theorem Snk.write_interrupted {k k' : Snk} {at_ : Nat × Nat} {b : Bytes} (h : k.write at_ b = (.interrupted, k')) :
    k'.out = k.out ∧ k'.log = k.log ∧ k'.fs = k.fs ∧ k'.flushes = k.flushes ∧ k.ws = .errInterrupted :: k'.ws := by
  unfold Snk.write at h
  split at h
  · simp at h
  · simp at h
  · simp at h
  · rename_i ws hw
    simp only [Prod.mk.injEq, true_and] at h
    subst h; exact ⟨rfl, rfl, rfl, rfl, hw⟩

/-! ### `Snk.writeAll` -/

/-- Everything `write_all` does, for ALL scripts: it appends a prefix `p` of the buffer (all of it on success), touches
    neither the flush script nor the flush count, consumes the write script from the front, and logs one entry per
    successful `write()` — each stamped with the source position `at_`, their sizes summing to `|p|`. -/
theorem Snk.writeAll_spec (at_ : Nat × Nat) : ∀ (fuel : Nat) (k : Snk) (b : Bytes) (r : Bool) (k' : Snk),
    Snk.writeAll at_ fuel k b = (r, k') →
    ∃ (p : Bytes) (L : List WLog), k'.out = k.out ++ p ∧ p <+: b ∧ (r = true → p = b) ∧ k'.fs = k.fs ∧
      k'.flushes = k.flushes ∧ (∃ pre, k.ws = pre ++ k'.ws) ∧ k'.log = L ++ k.log ∧
      (∀ e ∈ L, e.srcPos = at_.1 ∧ e.srcReads = at_.2) ∧ (L.map (·.n)).sum = p.length := by
  intro fuel
  induction fuel with
  | zero =>
    intro k b r k' h
    simp only [Snk.writeAll, Prod.mk.injEq] at h
    obtain ⟨rfl, rfl⟩ := h
    refine ⟨[], [], by simp, List.nil_prefix, ?_, rfl, rfl, ⟨[], rfl⟩, rfl, by simp, rfl⟩
    intro hb; exact (List.isEmpty_iff.mp hb).symm
  | succ f ih =>
    intro k b r k' h
    simp only [Snk.writeAll] at h
    split at h
    · rename_i hb
      simp only [Prod.mk.injEq] at h
      obtain ⟨rfl, rfl⟩ := h
      exact ⟨[], [], by simp, List.nil_prefix, fun _ => (List.isEmpty_iff.mp hb).symm, rfl, rfl, ⟨[], rfl⟩, rfl, by simp, rfl⟩
    · split at h
      · rename_i k1 hw
        simp only [Prod.mk.injEq] at h
        obtain ⟨rfl, rfl⟩ := h
        obtain ⟨ho, hl, hf, hfl, hws⟩ := Snk.write_err hw
        exact ⟨[], [], by simp [ho], List.nil_prefix, by simp, hf, hfl, ⟨[.errOther], by simp [hws]⟩, by simp [hl], by simp, rfl⟩
      · rename_i k1 hw
        obtain ⟨ho, hl, hf, hfl, hws⟩ := Snk.write_interrupted hw
        obtain ⟨p, L, h1, h2, h3, h4, h5, ⟨pre, h6⟩, h7, h8, h9⟩ := ih k1 b r k' h
        exact ⟨p, L, by rw [h1, ho], h2, h3, by rw [h4, hf], by rw [h5, hfl], ⟨.errInterrupted :: pre, by rw [hws, h6]; rfl⟩,
          by rw [h7, hl], h8, h9⟩
      · rename_i n k1 hw
        obtain ⟨hn, ho, hl, hf, hfl, ⟨pre1, hws⟩, _, _⟩ := Snk.write_wrote hw
        split at h
        · rename_i hn0
          simp only [Prod.mk.injEq] at h
          obtain ⟨rfl, rfl⟩ := h
          subst hn0
          refine ⟨[], [⟨at_.1, at_.2, 0⟩], by simp [ho], List.nil_prefix, by simp, hf, hfl, ⟨pre1, hws⟩, by simp [hl], ?_, rfl⟩
          intro e he; simp only [List.mem_singleton] at he; subst he; exact ⟨rfl, rfl⟩
        · obtain ⟨p, L, h1, h2, h3, h4, h5, ⟨pre, h6⟩, h7, h8, h9⟩ := ih k1 (b.drop n) r k' h
          refine ⟨b.take n ++ p, L ++ [⟨at_.1, at_.2, n⟩], by rw [h1, ho, List.append_assoc], ?_, ?_, by rw [h4, hf],
            by rw [h5, hfl], ⟨pre1 ++ pre, by rw [hws, h6, List.append_assoc]⟩, by rw [h7, hl]; simp, ?_, ?_⟩
          · obtain ⟨t, ht⟩ := h2
            exact ⟨t, by rw [List.append_assoc, ht, List.take_append_drop]⟩
          · intro hr; rw [h3 hr, List.take_append_drop]
          · intro e he
            rcases List.mem_append.mp he with he | he
            · exact h8 e he
            · simp only [List.mem_singleton] at he; subst he; exact ⟨rfl, rfl⟩
          · simp only [List.map_append, List.map_cons, List.map_nil, List.sum_append_nat, h9, List.length_append,
              List.length_take, List.sum_cons, List.sum_nil]
            omega

theorem Snk.writeAll_out {at_ : Nat × Nat} {fuel : Nat} {k k' : Snk} {b : Bytes} {r : Bool}
    (h : Snk.writeAll at_ fuel k b = (r, k')) :
    ∃ p, k'.out = k.out ++ p ∧ p <+: b ∧ (r = true → p = b) ∧ k'.fs = k.fs := by
  obtain ⟨p, _, h1, h2, h3, h4, _⟩ := Snk.writeAll_spec at_ fuel k b r k' h
  exact ⟨p, h1, h2, h3, h4⟩

/-- every log entry added by `write_all` carries `(srcPos, srcReads) = at_`, and the sizes of the added entries sum to the
    number of bytes appended to `out` -/
theorem Snk.writeAll_log {at_ : Nat × Nat} {fuel : Nat} {k k' : Snk} {b : Bytes} {r : Bool}
    (h : Snk.writeAll at_ fuel k b = (r, k')) :
    ∃ L, k'.log = L ++ k.log ∧ (∀ e ∈ L, e.srcPos = at_.1 ∧ e.srcReads = at_.2) ∧
      k'.out.length = k.out.length + (L.map (·.n)).sum := by
  obtain ⟨p, L, h1, _, _, _, _, _, h7, h8, h9⟩ := Snk.writeAll_spec at_ fuel k b r k' h
  exact ⟨L, h7, h8, by rw [h1, List.length_append, h9]⟩

/-- on a benign sink script (partial writes ≥ 1 byte, interruptions) `write_all` succeeds -/
theorem Snk.writeAll_benign_run (at_ : Nat × Nat) : ∀ (fuel : Nat) (k : Snk) (b : Bytes), k.benign → k.wfuel b ≤ fuel →
    ∃ k', Snk.writeAll at_ fuel k b = (true, k') := by
  intro fuel
  induction fuel with
  | zero => intro k b _ hf; simp only [Snk.wfuel] at hf; omega
  | succ f ih =>
    intro k b hb hf
    simp only [Snk.wfuel] at hf
    simp only [Snk.writeAll]
    split
    · exact ⟨k, rfl⟩
    · rename_i hne
      have hbl : b.length ≠ 0 := by
        intro h0; exact hne (by rw [List.eq_nil_of_length_eq_zero h0]; rfl)
      rcases hw : k.write at_ b with ⟨r, k1⟩
      cases r with
      | err =>
        obtain ⟨_, _, _, _, hws⟩ := Snk.write_err hw
        rcases hb.1 .errOther (by rw [hws]; simp) with ⟨n, hn, _⟩ | hn <;> simp at hn
      | interrupted =>
        obtain ⟨_, _, hf1, _, hws⟩ := Snk.write_interrupted hw
        have hb1 : k1.benign := Snk.benign_of_suffix hb ⟨[.errInterrupted], by rw [hws]; rfl⟩ ⟨[], by rw [hf1]; rfl⟩
        have hl : k.ws.length = k1.ws.length + 1 := by rw [hws]; rfl
        obtain ⟨k', hk'⟩ := ih k1 b hb1 (by simp only [Snk.wfuel]; omega)
        exact ⟨k', hk'⟩
      | wrote n =>
        obtain ⟨hn, _, _, hf1, _, hpre, hnil, hacc⟩ := Snk.write_wrote hw
        have hb1 : k1.benign := Snk.benign_of_suffix hb hpre ⟨[], by rw [hf1]; rfl⟩
        have hn0 : n ≠ 0 ∧ k1.ws.length + (b.length - n) + 1 ≤ f := by
          cases hws : k.ws with
          | nil =>
            have := hnil hws
            obtain ⟨pre, hpre⟩ := hpre
            rw [hws] at hpre
            have : k1.ws = [] := by
              have := congrArg List.length hpre
              simp only [List.length_nil, List.length_append] at this
              exact List.eq_nil_of_length_eq_zero (by omega)
            rw [this]; simp only [List.length_nil]
            rw [hws] at hf; simp only [List.length_nil] at hf
            omega
          | cons e ws =>
            rcases hb.1 e (by rw [hws]; simp) with ⟨a, ha, h1⟩ | ha
            · subst ha
              obtain ⟨hna, hk1⟩ := hacc a ws hws
              rw [hk1]
              rw [hws] at hf; simp only [List.length_cons] at hf
              omega
            · subst ha
              unfold Snk.write at hw
              rw [hws] at hw
              simp at hw
        obtain ⟨k', hk'⟩ := ih k1 (b.drop n) hb1 (by simp only [Snk.wfuel, List.length_drop]; exact hn0.2)
        exact ⟨k', by simp only [if_neg hn0.1, hk']⟩

theorem Snk.writeAll_benign {at_ : Nat × Nat} {fuel : Nat} {k : Snk} {b : Bytes} (hb : k.benign) (hf : k.wfuel b ≤ fuel) :
    ∃ k', Snk.writeAll at_ fuel k b = (true, k') ∧ k'.out = k.out ++ b ∧ k'.benign := by
  obtain ⟨k', hk'⟩ := Snk.writeAll_benign_run at_ fuel k b hb hf
  obtain ⟨p, _, h1, _, h3, h4, _, h6, _⟩ := Snk.writeAll_spec at_ fuel k b true k' hk'
  exact ⟨k', hk', by rw [h1, h3 rfl], Snk.benign_of_suffix hb h6 ⟨[], by rw [h4]; rfl⟩⟩

theorem Snk.writeAll_faultFree {at_ : Nat × Nat} {fuel : Nat} {k : Snk} {b : Bytes} (hb : k.faultFree) (hf : k.wfuel b ≤ fuel) :
    ∃ k', Snk.writeAll at_ fuel k b = (true, k') ∧ k'.out = k.out ++ b ∧ k'.faultFree := by
  obtain ⟨k', hk'⟩ := Snk.writeAll_benign_run at_ fuel k b hb.benign hf
  obtain ⟨p, _, h1, _, h3, h4, _, h6, _⟩ := Snk.writeAll_spec at_ fuel k b true k' hk'
  exact ⟨k', hk', by rw [h1, h3 rfl], Snk.faultFree_of_suffix hb h6 ⟨[], by rw [h4]; rfl⟩⟩

/-! ### `Snk.flush` -/

theorem Snk.flush_frame {k k' : Snk} {r : Bool} (h : k.flush = (r, k')) :
    k'.out = k.out ∧ k'.log = k.log ∧ k'.ws = k.ws ∧ ∃ pre, k.fs = pre ++ k'.fs := by
  unfold Snk.flush at h
  split at h
  · simp only [Prod.mk.injEq] at h; obtain ⟨_, rfl⟩ := h; exact ⟨rfl, rfl, rfl, [], by simp⟩
  · rename_i fs hfs
    simp only [Prod.mk.injEq] at h; obtain ⟨_, rfl⟩ := h; exact ⟨rfl, rfl, rfl, [.ok], by simp [hfs]⟩
  · rename_i e fs _ hfs
    simp only [Prod.mk.injEq] at h; obtain ⟨_, rfl⟩ := h; exact ⟨rfl, rfl, rfl, [e], by simp [hfs]⟩

theorem Snk.flush_benign {k k' : Snk} {r : Bool} (hb : k.benign) (h : k.flush = (r, k')) : r = true ∧ k'.benign := by
  obtain ⟨_, _, hws, hfs⟩ := Snk.flush_frame h
  refine ⟨?_, Snk.benign_of_suffix hb ⟨[], by rw [hws]; rfl⟩ hfs⟩
  unfold Snk.flush at h
  split at h
  · simp only [Prod.mk.injEq] at h; exact h.1.symm
  · simp only [Prod.mk.injEq] at h; exact h.1.symm
  · rename_i e fs hne hfs
    have := hb.2 e (by rw [hfs]; simp)
    exact absurd this hne

theorem Snk.flush_faultFree {k k' : Snk} {r : Bool} (hb : k.faultFree) (h : k.flush = (r, k')) : r = true ∧ k'.faultFree := by
  obtain ⟨_, _, hws, hfs⟩ := Snk.flush_frame h
  exact ⟨(Snk.flush_benign hb.benign h).1, Snk.faultFree_of_suffix hb ⟨[], by rw [hws]; rfl⟩ hfs⟩

/-! ### the fuel bounds of the model are never the reason for a failure (ALL scripts) -/

/-- `Src.fuel` suffices for every script: more fuel changes nothing -/
theorem Src.readExact_fuel_succ : ∀ (fuel : Nat) (s : Src) (need : Nat), s.fuel need ≤ fuel →
    Src.readExact (fuel+1) s need = Src.readExact fuel s need := by
  intro fuel
  induction fuel with
  | zero => intro s need h; simp only [Src.fuel] at h; omega
  | succ f ih =>
    intro s need h
    simp only [Src.fuel] at h
    conv => lhs; unfold Src.readExact
    conv => rhs; unfold Src.readExact
    by_cases hn : need = 0
    · simp only [hn, if_true]
    · simp only [if_neg hn]
      rcases hrd : s.read need with ⟨r, s1⟩
      cases r with
      | err => rfl
      | interrupted =>
        obtain ⟨_, _, _, hsc⟩ := Src.read_interrupted hrd
        have hl : s.script.length = s1.script.length + 1 := by rw [hsc]; rfl
        simp only
        exact ih s1 need (by simp only [Src.fuel]; omega)
      | got b =>
        obtain ⟨m, _, _, _, _, _, _, _, pre, hsc⟩ := Src.read_got hrd
        have hl : s1.script.length ≤ s.script.length := by rw [hsc, List.length_append]; omega
        simp only
        by_cases hb : b.length = 0
        · simp only [hb, if_true]
        · simp only [if_neg hb]
          rw [ih s1 (need - b.length) (by simp only [Src.fuel]; omega)]

theorem Src.readExact_fuel_irrel (s : Src) (need : Nat) : ∀ (fuel : Nat), s.fuel need ≤ fuel →
    Src.readExact fuel s need = Src.readExact (s.fuel need) s need := by
  intro fuel h
  induction fuel with
  | zero => have : s.fuel need = 0 := by omega
            rw [this]
  | succ f ih =>
    rcases Nat.lt_or_ge (s.fuel need) (f+1) with hl | hl
    · rw [Src.readExact_fuel_succ f s need (by omega), ih (by omega)]
    · have : s.fuel need = f + 1 := by omega
      rw [this]

/-- `Snk.wfuel` suffices for every script -/
theorem Snk.writeAll_fuel_succ (at_ : Nat × Nat) : ∀ (fuel : Nat) (k : Snk) (b : Bytes), k.wfuel b ≤ fuel →
    Snk.writeAll at_ (fuel+1) k b = Snk.writeAll at_ fuel k b := by
  intro fuel
  induction fuel with
  | zero => intro k b h; simp only [Snk.wfuel] at h; omega
  | succ f ih =>
    intro k b h
    simp only [Snk.wfuel] at h
    conv => lhs; unfold Snk.writeAll
    conv => rhs; unfold Snk.writeAll
    by_cases hb : b.isEmpty = true
    · simp only [hb, if_true]
    · simp only [hb, Bool.false_eq_true, if_false]
      have hbl : b.length ≠ 0 := by
        intro h0; exact hb (by rw [List.eq_nil_of_length_eq_zero h0]; rfl)
      rcases hw : k.write at_ b with ⟨r, k1⟩
      cases r with
      | err => rfl
      | interrupted =>
        obtain ⟨_, _, _, _, hws⟩ := Snk.write_interrupted hw
        have hl : k.ws.length = k1.ws.length + 1 := by rw [hws]; rfl
        simp only
        exact ih k1 b (by simp only [Snk.wfuel]; omega)
      | wrote n =>
        obtain ⟨_, _, _, _, _, ⟨pre, hws⟩, _, _⟩ := Snk.write_wrote hw
        have hl : k1.ws.length ≤ k.ws.length := by rw [hws, List.length_append]; omega
        simp only
        by_cases hn : n = 0
        · simp only [hn, if_true]
        · simp only [if_neg hn]
          exact ih k1 (b.drop n) (by simp only [Snk.wfuel, List.length_drop]; omega)

end Kestrel
