/-
  Helper lemmas for KestrelProps/CliFullSrc.lean: the translated commands of commands.rs (KestrelModel/GeneratedCli.lean) run
  with the TRANSLATED streaming functions of encrypt.rs / decrypt.rs (`CliSrc.streamLib`, KestrelModel/RsCliStream.lean)
  against the hand-written model `runEncrypt` / `runDecrypt` / `runPassEncrypt` / `runPassDecrypt` (KestrelModel/Cli.lean).

  Sections:
    A  the translated writers (`OnDemandFile`, standard output) under an arbitrary sequence of `write` / `flush` calls
       (`runEvents_writer_file`, `runEvents_writer_stdout`): only the concatenated bytes and "was there a call" matter;
    B  the sink's write log accounts for its output (`Acct`), through the four I/O-level models;
    C  `replay` on the writer of an output argument = `Cli.deliver`;
    D  the four functions of `streamLib` on the reader / writer of the commands, in the model's terms;
    E  the model's commands split at the library call; the composed statements.
  Generated code is never restated: a lemma about a generated function unfolds it.
-/
import KestrelModel.RsCliStream
import KestrelProofs.CliGenKeySrc
import KestrelProofs.StreamSrcEnc
import KestrelProofs.StreamSrcDec
set_option linter.unusedSimpArgs false
namespace Kestrel
namespace CliSrc
open RsStr RsCli Cli

/-! ### A. the translated writers under any sequence of calls -/

/-- the bytes a sequence of calls writes -/
def bytesOf : List WEv → Bytes
  | [] => []
  | .write b :: r => b ++ bytesOf r
  | .flush :: r => bytesOf r

theorem bytesOf_append (a b : List WEv) : bytesOf (a ++ b) = bytesOf a ++ bytesOf b := by
  induction a with
  | nil => rfl
  | cons e r ih => cases e <;> simp [bytesOf, ih]

theorem bytesOf_flushes (n : Nat) : bytesOf (List.replicate n .flush) = [] := by
  induction n with
  | zero => rfl
  | succ n ih => simpa [List.replicate_succ, bytesOf] using ih

theorem bytesOf_writeCalls : ∀ (ns : List Nat) (b : Bytes), bytesOf (writeCalls ns b) = b.take ns.sum
  | [], b => by simp [writeCalls, bytesOf]
  | n :: ns, b => by
    simp only [writeCalls, bytesOf, bytesOf_writeCalls ns, List.sum_cons]
    rw [List.take_add]

/-- the translated writers accept every buffer whole, as the unscripted sink of the stream model does: `write` returns
    `Ok(buf.len())` for each kind of `Box<dyn Write>` and each state of an `OnDemandFile` -/
theorem write_accepts_all (sys : Sys) (w : DynWrite) (b : Bytes) : (DynWrite.write sys w b).2.2 = .ok b.length := by
  unfold DynWrite.write
  cases w with
  | OnDemandFile v =>
    obtain ⟨p, h⟩ := v
    unfold commands.OnDemandFile.write commands.OnDemandFile.ensure_created
    cases h <;> rfl
  | File v => rfl
  | Stdout v => rfl

/-- … and `flush` never fails -/
theorem flush_succeeds (sys : Sys) (w : DynWrite) : (DynWrite.flush sys w).2.2 = .ok () := by
  unfold DynWrite.flush
  cases w with
  | OnDemandFile v =>
    obtain ⟨p, h⟩ := v
    unfold commands.OnDemandFile.flush commands.OnDemandFile.ensure_created
    cases h <;> rfl
  | File v => rfl
  | Stdout v => rfl

/-- one `write` through an `OnDemandFile` whose file is open -/
theorem odf_write_open (sys : Sys) (p : Str) (b : Bytes) :
    DynWrite.write sys (.OnDemandFile ⟨p, some ⟨p⟩⟩) b =
      ({ sys with world := sys.world.setFile p ((sys.world.file p).getD [] ++ b) }, .OnDemandFile ⟨p, some ⟨p⟩⟩, .ok b.length) := by
  unfold DynWrite.write commands.OnDemandFile.write commands.OnDemandFile.ensure_created
  rfl

theorem odf_flush_open (sys : Sys) (p : Str) :
    DynWrite.flush sys (.OnDemandFile ⟨p, some ⟨p⟩⟩) = (sys, .OnDemandFile ⟨p, some ⟨p⟩⟩, .ok ()) := by
  unfold DynWrite.flush commands.OnDemandFile.flush commands.OnDemandFile.ensure_created
  rfl

/-- the first `write` through an `OnDemandFile`: the file is created (truncated), then written -/
theorem odf_write_closed (sys : Sys) (p : Str) (b : Bytes) :
    DynWrite.write sys (.OnDemandFile ⟨p, none⟩) b =
      ({ sys with world := sys.world.setFile p b }, .OnDemandFile ⟨p, some ⟨p⟩⟩, .ok b.length) := by
  unfold DynWrite.write commands.OnDemandFile.write commands.OnDemandFile.ensure_created
  simp only [Option.isNone_none, if_true, File.create, propagate_ok, bind_next, run_next, RsStr.unwrap_opt, File.write,
    file_setFile, Option.getD_some, List.nil_append, setFile_setFile]

theorem odf_flush_closed (sys : Sys) (p : Str) :
    DynWrite.flush sys (.OnDemandFile ⟨p, none⟩) =
      ({ sys with world := sys.world.setFile p [] }, .OnDemandFile ⟨p, some ⟨p⟩⟩, .ok ()) := by
  unfold DynWrite.flush commands.OnDemandFile.flush commands.OnDemandFile.ensure_created
  simp only [Option.isNone_none, if_true, File.create, propagate_ok, bind_next, run_next, RsStr.unwrap_opt, File.flush]

/-- an open `OnDemandFile` whose file holds `acc`: every call succeeds, the bytes are appended -/
theorem runEvents_odf_open (p : Str) (w0 : World) : ∀ (evs : List WEv) (sys : Sys) (acc : Bytes),
    sys.world = w0.setFile p acc →
    runEvents sys (.OnDemandFile ⟨p, some ⟨p⟩⟩) evs =
      ({ sys with world := w0.setFile p (acc ++ bytesOf evs) }, .OnDemandFile ⟨p, some ⟨p⟩⟩, .ok ())
  | [], sys, acc, h => by
    simp only [runEvents, bytesOf, List.append_nil, ← h]
  | .write b :: evs, sys, acc, h => by
    rw [runEvents, odf_write_open]
    simp only []
    rw [runEvents_odf_open p w0 evs _ (acc ++ b) (by simp only [h, file_setFile, Option.getD_some, setFile_setFile])]
    simp only [bytesOf, List.append_assoc]
  | .flush :: evs, sys, acc, h => by
    rw [runEvents, odf_flush_open]
    simp only []
    rw [runEvents_odf_open p w0 evs sys acc h]
    simp only [bytesOf]

/-- **the translated `OnDemandFile`, any sequence of calls**: no call leaves the process state untouched (no file is created);
    otherwise every call succeeds and the file holds exactly the bytes written, in order — wherever the `flush` calls stand. -/
theorem runEvents_writer_file (sys : Sys) (p : Str) (evs : List WEv) :
    runEvents sys (.OnDemandFile ⟨p, none⟩) evs =
      if evs = [] then (sys, .OnDemandFile ⟨p, none⟩, .ok ())
      else ({ sys with world := sys.world.setFile p (bytesOf evs) }, .OnDemandFile ⟨p, some ⟨p⟩⟩, .ok ()) := by
  cases evs with
  | nil => rfl
  | cons e evs =>
    rw [if_neg (by simp)]
    cases e with
    | write b =>
      rw [runEvents, odf_write_closed]
      simp only []
      rw [runEvents_odf_open p sys.world evs _ b rfl]
      simp only [bytesOf]
    | flush =>
      rw [runEvents, odf_flush_closed]
      simp only []
      rw [runEvents_odf_open p sys.world evs _ [] rfl]
      simp only [bytesOf, List.nil_append]

/-- **standard output, any sequence of calls**: every call succeeds, the bytes written are appended in order. -/
theorem runEvents_writer_stdout : ∀ (evs : List WEv) (sys : Sys),
    runEvents sys (.Stdout {}) evs = ({ sys with stdout := sys.stdout ++ bytesOf evs }, .Stdout {}, .ok ())
  | [], sys => by simp only [runEvents, bytesOf, List.append_nil]
  | .write b :: evs, sys => by
    rw [runEvents]
    show (match (({ sys with stdout := sys.stdout ++ b }, DynWrite.Stdout {}, Except.ok b.length) :
      Sys × DynWrite × Except IoError Nat) with
      | (sys, w, .ok _) => runEvents sys w evs
      | (sys, w, .error e) => (sys, w, .error e)) = _
    simp only []
    rw [runEvents_writer_stdout evs]
    simp only [bytesOf, List.append_assoc]
  | .flush :: evs, sys => by
    rw [runEvents]
    show (match ((sys, DynWrite.Stdout {}, Except.ok ()) : Sys × DynWrite × Except IoError Unit) with
      | (sys, w, .ok _) => runEvents sys w evs
      | (sys, w, .error e) => (sys, w, .error e)) = _
    simp only []
    rw [runEvents_writer_stdout evs]
    simp only [bytesOf]

/-- the interleaving of `flush` calls with `write` calls is immaterial for the writers the commands build: two sequences of
    calls that write the same bytes and are both empty or both non-empty have the same effect -/
theorem runEvents_interleaving (sys : Sys) (outf : Option Str) (a b : List WEv) (hb : bytesOf a = bytesOf b)
    (he : a = [] ↔ b = []) : runEvents sys (writerOf outf) a = runEvents sys (writerOf outf) b := by
  cases outf with
  | none => simp only [writerOf, runEvents_writer_stdout, hb]
  | some p =>
    simp only [writerOf, runEvents_writer_file, hb]
    by_cases h : a = []
    · rw [if_pos h, if_pos (he.mp h)]
    · rw [if_neg h, if_neg (fun h' => h (he.mpr h'))]

/-! ### B. the write log accounts for the output -/

/-- the sizes of the logged `write` calls add up to the bytes in `out` -/
def Acct (k : Snk) : Prop := (k.log.map (·.n)).sum = k.out.length

theorem acct_empty : Acct {} := rfl

theorem Acct.step {at_ : Nat × Nat} {k k' : Snk} {p : Bytes} (h : EncIO.Step at_ k k' p) (ha : Acct k) : Acct k' := by
  obtain ⟨new, hl, _, hs⟩ := h.log
  unfold Acct at *
  rw [hl, h.out, List.map_append, List.sum_append, List.length_append, hs, ha, Nat.add_comm]

theorem acct_writeRecord (k : Snk) (at_ : Nat × Nat) (hdr body : Bytes) (ha : Acct k) : Acct (writeRecord k at_ hdr body).2 := by
  obtain ⟨p, hs, _⟩ := EncIO.writeRecord_step at_ k hdr body
  exact ha.step hs

theorem acct_encLoopIO (A : Aead) (key aad : Bytes) (cs : Nat) : ∀ (fuel ctr : Nat) (prev : Bytes) (done : Bool) (s : Src) (k : Snk),
    Acct k → Acct (encLoopIO A key aad cs fuel ctr prev done s k).2.2 := by
  intro fuel
  induction fuel with
  | zero => intro _ _ _ _ k ha; simpa [encLoopIO] using ha
  | succ fuel ih =>
    intro ctr prev done s k ha
    cases hread : s.read cs with
    | mk rr s' =>
      cases rr with
      | err => rw [EncIO.encLoopIO_err A key aad cs hread]; exact ha
      | interrupted => rw [EncIO.encLoopIO_int A key aad cs hread]; exact ha
      | got r =>
        by_cases hr : r.length = 0
        · rw [EncIO.encLoopIO_last A key aad cs hread hr]
          exact acct_writeRecord _ _ _ _ ha
        · cases done with
          | true => rw [EncIO.encLoopIO_unexp A key aad cs hread hr]; exact ha
          | false =>
            rw [EncIO.encLoopIO_more A key aad cs hread hr]
            have hw : Acct (EncIO.recW A key aad ctr false prev s' k).2 := acct_writeRecord _ _ _ _ ha
            cases (EncIO.recW A key aad ctr false prev s' k).1
            · simpa using hw
            · simpa using ih (ctr+1) r false s' _ hw

theorem acct_encryptChunksIO (A : Aead) (key aad : Bytes) (cs : Nat) (s : Src) (k : Snk) (ha : Acct k) :
    Acct (encryptChunksIO A key aad cs s k).2.2 := by
  cases hread : s.read cs with
  | mk rr s' =>
    cases rr with
    | err => rw [EncIO.encryptChunksIO_err A key aad cs hread]; exact ha
    | interrupted => rw [EncIO.encryptChunksIO_int A key aad cs hread]; exact ha
    | got r => rw [EncIO.encryptChunksIO_got A key aad cs hread]; exact acct_encLoopIO _ _ _ _ _ _ _ _ _ _ ha

theorem acct_hdrThenChunks (A : Aead) (key aad : Bytes) (cs : Nat) (hdr body : Bytes) (src : Src) (k : Snk) (ha : Acct k) :
    Acct (EncIO.hdrThenChunks A key aad cs hdr body src k).2.2 := by
  unfold EncIO.hdrThenChunks
  have hw := acct_writeRecord k (src.pos, src.nreads) hdr body ha
  split
  · exact acct_encryptChunksIO _ _ _ _ _ _ hw
  · exact hw

theorem acct_passEncryptIO (P : Prims) (pw salt : Bytes) (src : Src) (k : Snk) (ha : Acct k) :
    Acct (passEncryptIO P pw salt src k).2.2 := by
  rw [EncIO.passEncryptIO_eq]; exact acct_hdrThenChunks _ _ _ _ _ _ _ _ ha

theorem acct_keyEncryptIO (P : Prims) (s spk rs e epk pk : Bytes) (src : Src) (k : Snk) (ha : Acct k) :
    Acct (keyEncryptIO P s spk rs e epk pk src k).2.2 := by
  cases h : Noise.writeMessage P Generated.encPrologue s spk rs e epk pk with
  | error err => rw [EncIO.keyEncryptIO_error P s spk rs e epk pk src k h]; exact ha
  | ok v =>
    obtain ⟨msg, hh⟩ := v
    rw [EncIO.keyEncryptIO_ok P s spk rs e epk pk src k h]; exact acct_hdrThenChunks _ _ _ _ _ _ _ _ ha

theorem acct_writeChunk {k k' : Snk} {at_ : Nat × Nat} {pt : Bytes} {r : Bool} (h : writeChunk k at_ pt = (r, k')) (ha : Acct k) :
    Acct k' := by
  obtain ⟨p, L, h1, _, _, h4, _, h6, _⟩ := writeChunk_spec h
  unfold Acct at *
  rw [h4, h1, List.map_append, List.sum_append, List.length_append, h6, ha, Nat.add_comm]

theorem acct_decLoopIO (A : Aead) (key aad : Bytes) (cs : Nat) : ∀ (fuel ctr : Nat) (s : Src) (k : Snk),
    Acct k → Acct (decLoopIO A key aad cs fuel ctr s k).2.2 := by
  intro fuel
  induction fuel with
  | zero => intro _ _ k ha; simpa [decLoopIO] using ha
  | succ fuel ih =>
    intro ctr s k ha
    rw [decLoopIO_succ]
    rcases hr : readRecordIO A key aad cs ctr s with ⟨o, s3⟩
    cases o with
    | fail e => exact ha
    | chunk pt last =>
      simp only []
      rcases hw : writeChunk k (s3.pos, s3.nreads) pt with ⟨b, k2⟩
      have hk2 := acct_writeChunk hw ha
      cases b with
      | false => exact hk2
      | true =>
        simp only []
        split
        · exact hk2
        · exact ih _ _ _ hk2

theorem acct_decryptChunksIO (A : Aead) (key aad : Bytes) (cs : Nat) (s : Src) (k : Snk) (ha : Acct k) :
    Acct (decryptChunksIO A key aad cs s k).2.2 := acct_decLoopIO _ _ _ _ _ _ _ _ ha

theorem acct_passDecryptIO (P : Prims) (pw : Bytes) (src : Src) (k : Snk) (ha : Acct k) :
    Acct (passDecryptIO P pw src k).2.2 := by
  unfold passDecryptIO
  repeat' split
  all_goals first | exact ha | exact acct_decryptChunksIO _ _ _ _ _ _ ha

theorem acct_keyDecryptIO (P : Prims) (r rpk : Bytes) (src : Src) (k : Snk) (ha : Acct k) :
    Acct (keyDecryptIO P r rpk src k).2.2.1 := by
  unfold keyDecryptIO
  repeat' split
  all_goals first
    | exact ha
    | (rename_i res s3 k' heq h
       have e := congrArg (fun x => x.2.2) heq
       simp only at e
       show Acct k'
       rw [← e]
       exact acct_decryptChunksIO _ _ _ _ _ _ ha)

/-- the sender key is reported exactly on success -/
theorem keyDecryptIO_sender (P : Prims) (r rpk : Bytes) (src : Src) (k : Snk) :
    ((keyDecryptIO P r rpk src k).1 = .ok → ∃ spk, (keyDecryptIO P r rpk src k).2.2.2 = some spk) ∧
    ((keyDecryptIO P r rpk src k).1 ≠ .ok → (keyDecryptIO P r rpk src k).2.2.2 = none) := by
  unfold keyDecryptIO
  repeat' split
  all_goals first
    | (rename_i h; exact ⟨fun _ => ⟨_, rfl⟩, fun h' => absurd h h'⟩)
    | (rename_i h; exact ⟨fun h' => absurd h' h, fun _ => rfl⟩)
    | exact ⟨(fun h => nomatch h), fun _ => rfl⟩

/-! ### C. replaying a sink on the writer of an output argument is `Cli.deliver` -/

theorem writeCalls_eq_nil (ns : List Nat) (b : Bytes) : writeCalls ns b = [] ↔ ns = [] := by
  cases ns <;> simp [writeCalls]

theorem eventsOf_eq_nil (k : Snk) : eventsOf k = [] ↔ (k.log.isEmpty && k.flushes == 0) = true := by
  unfold eventsOf
  rw [List.append_eq_nil_iff, writeCalls_eq_nil]
  simp [List.replicate_eq_nil_iff, List.isEmpty_iff]

theorem bytesOf_eventsOf (k : Snk) (ha : Acct k) : bytesOf (eventsOf k) = k.out := by
  unfold eventsOf
  rw [bytesOf_append, bytesOf_flushes, bytesOf_writeCalls, List.append_nil, List.map_reverse, List.sum_reverse, ha,
    List.take_length]

/-- **`replay` = `deliver`.** The calls an (accounted) sink recorded, made on the translated writer for the output argument
    `outf` — the translated `OnDemandFile`, file not created yet, or standard output — all succeed and change the process state
    exactly as the model's `Cli.deliver` says: the file is created and holds the sink's bytes iff a call was recorded / the bytes
    are appended to standard output; nothing else changes. -/
theorem replay_deliver (sys : Sys) (outf : Option Str) (k : Snk) (ha : Acct k) :
    ∃ w', replay sys (writerOf outf) k =
      ({ sys with world := (deliver sys.world outf k).1, stdout := sys.stdout ++ (deliver sys.world outf k).2 }, w', .ok ()) := by
  unfold replay
  cases outf with
  | none =>
    refine ⟨.Stdout {}, ?_⟩
    rw [writerOf, runEvents_writer_stdout, bytesOf_eventsOf k ha]
    rfl
  | some p =>
    rw [writerOf, runEvents_writer_file, bytesOf_eventsOf k ha]
    unfold deliver
    by_cases h : (k.log.isEmpty && k.flushes == 0) = true
    · rw [if_pos ((eventsOf_eq_nil k).mpr h)]
      simp only [h, if_true, List.append_nil]
      exact ⟨_, rfl⟩
    · rw [if_neg (fun h' => h ((eventsOf_eq_nil k).mp h'))]
      simp only [h, Bool.false_eq_true, if_false, List.append_nil]
      exact ⟨_, rfl⟩

/-! ### D. the functions of `streamLib` on the reader / writer of a command -/

/-- what a call did to the process state, in the model's terms: the world and the bytes for standard output are `d`; command
    line, exit code, loop-budget flag, primitives and randomness are untouched (standard error, the count of random draws and
    the position in standard input are not constrained) -/
def Effect (sys s' : Sys) (d : World × Bytes) : Prop :=
  s'.world = d.1 ∧ s'.stdout = sys.stdout ++ d.2 ∧ s'.args = sys.args ∧ s'.exit = sys.exit ∧
    s'.outOfFuel = sys.outOfFuel ∧ s'.prims = sys.prims ∧ s'.rnd = sys.rnd

theorem readerBytes_eq (sys : Sys) (inf : Option Str) (hpos : sys.stdinPos = 0) :
    readerBytes sys (readerOf inf) = readerContent sys.world (readerOf inf) := by
  cases inf with
  | none => simp only [readerOf, readerBytes, readerContent, hpos, List.drop_zero]
  | some p => rfl

theorem finish_spec {ε α : Type} (sys : Sys) (inf outf : Option Str) (s' : Src) (k' : Snk) (res : Except ε α) (wrErr : IoError → ε)
    (ha : Acct k') :
    (finish sys (readerOf inf) (writerOf outf) s' k' res wrErr).2.2.2 = res ∧
    Effect sys (finish sys (readerOf inf) (writerOf outf) s' k' res wrErr).1 (deliver sys.world outf k') := by
  unfold finish
  have hw : (consume sys (readerOf inf) s'.pos).world = sys.world := by cases inf <;> rfl
  obtain ⟨w', hr⟩ := replay_deliver (consume sys (readerOf inf) s'.pos) outf k' ha
  rw [hr, hw]
  refine ⟨rfl, rfl, ?_, ?_, ?_, ?_, ?_, ?_⟩ <;> cases inf <;> rfl

theorem lib_pass_decrypt (sys : Sys) (inf outf : Option Str) (pw : Bytes) (hpos : sys.stdinPos = 0) :
    (streamLib.pass_decrypt sys (readerOf inf) (writerOf outf) pw .V1).2.2.2 =
      decResult (StreamSrc.collapseFormat (passDecryptIO sys.prims pw { inp := readerContent sys.world (readerOf inf) } {}).1) ∧
    Effect sys (streamLib.pass_decrypt sys (readerOf inf) (writerOf outf) pw .V1).1
      (deliver sys.world outf (passDecryptIO sys.prims pw { inp := readerContent sys.world (readerOf inf) } {}).2.2) := by
  show (match StreamSrc.decrypt.pass_decrypt sys.prims.aead sys.prims { inp := readerBytes sys (readerOf inf) } {} pw (passFmt .V1)
      ((readerBytes sys (readerOf inf)).length + 1) with
    | none => (out_of_fuel sys, readerOf inf, writerOf outf, Except.error (DecryptError.Other []))
    | some (res, s', k') => finish sys (readerOf inf) (writerOf outf) s' k' (decResult res) DecryptError.IOWrite).2.2.2 = _ ∧
    Effect sys (match StreamSrc.decrypt.pass_decrypt sys.prims.aead sys.prims { inp := readerBytes sys (readerOf inf) } {} pw (passFmt .V1)
      ((readerBytes sys (readerOf inf)).length + 1) with
    | none => (out_of_fuel sys, readerOf inf, writerOf outf, Except.error (DecryptError.Other []))
    | some (res, s', k') => finish sys (readerOf inf) (writerOf outf) s' k' (decResult res) DecryptError.IOWrite).1 _
  rw [StreamSrc.pass_decrypt_eq _ _ _ _ _ _ (Nat.le_refl _), readerBytes_eq sys inf hpos]
  exact finish_spec sys inf outf _ _ _ _ (acct_passDecryptIO _ _ _ _ acct_empty)

theorem lib_pass_encrypt (sys : Sys) (inf outf : Option Str) (pw salt : Bytes) (hpos : sys.stdinPos = 0) :
    (streamLib.pass_encrypt sys (readerOf inf) (writerOf outf) pw salt .V1).2.2.2 =
      encResult (passEncryptIO sys.prims pw salt { inp := readerContent sys.world (readerOf inf) } {}).1 ∧
    Effect sys (streamLib.pass_encrypt sys (readerOf inf) (writerOf outf) pw salt .V1).1
      (deliver sys.world outf (passEncryptIO sys.prims pw salt { inp := readerContent sys.world (readerOf inf) } {}).2.2) := by
  show (match StreamSrc.encrypt.pass_encrypt sys.prims.aead sys.prims { inp := readerBytes sys (readerOf inf) } {} pw salt (passFmt .V1)
      ((readerBytes sys (readerOf inf)).length + 2) with
    | none => (out_of_fuel sys, readerOf inf, writerOf outf, Except.error (EncryptError.Other []))
    | some (res, s', k') => finish sys (readerOf inf) (writerOf outf) s' k' (encResult res) EncryptError.IOWrite).2.2.2 = _ ∧
    Effect sys (match StreamSrc.encrypt.pass_encrypt sys.prims.aead sys.prims { inp := readerBytes sys (readerOf inf) } {} pw salt (passFmt .V1)
      ((readerBytes sys (readerOf inf)).length + 2) with
    | none => (out_of_fuel sys, readerOf inf, writerOf outf, Except.error (EncryptError.Other []))
    | some (res, s', k') => finish sys (readerOf inf) (writerOf outf) s' k' (encResult res) EncryptError.IOWrite).1 _
  rw [StreamSrc.pass_encrypt_eq _ _ _ _ _ _ _ (show _ + _ + 2 ≤ (readerBytes sys (readerOf inf)).length + 2 from Nat.le_refl _),
    readerBytes_eq sys inf hpos]
  exact finish_spec sys inf outf _ _ _ _ (acct_passEncryptIO _ _ _ _ _ acct_empty)

theorem lib_key_decrypt (sys : Sys) (inf outf : Option Str) (sk pk : Bytes) (hpos : sys.stdinPos = 0) :
    (streamLib.key_decrypt sys (readerOf inf) (writerOf outf) ⟨sk⟩ ⟨pk⟩ .V1).2.2.2 =
      (match StreamSrc.keyResult (keyDecryptIO sys.prims sk pk { inp := readerContent sys.world (readerOf inf) } {}).1
          (keyDecryptIO sys.prims sk pk { inp := readerContent sys.world (readerOf inf) } {}).2.2.2 with
        | .ok spk => .ok ⟨spk⟩
        | .error c => .error (decError c)) ∧
    Effect sys (streamLib.key_decrypt sys (readerOf inf) (writerOf outf) ⟨sk⟩ ⟨pk⟩ .V1).1
      (deliver sys.world outf (keyDecryptIO sys.prims sk pk { inp := readerContent sys.world (readerOf inf) } {}).2.2.1) := by
  show (match StreamSrc.decrypt.key_decrypt sys.prims.aead sys.prims { inp := readerBytes sys (readerOf inf) } {} sk pk (asymFmt .V1)
      ((readerBytes sys (readerOf inf)).length + 1) with
    | none => (out_of_fuel sys, readerOf inf, writerOf outf, Except.error (DecryptError.Other []))
    | some (res, s', k') => finish sys (readerOf inf) (writerOf outf) s' k'
        (match res with | .ok spk => Except.ok (RsStr.PublicKey.mk spk) | .error c => Except.error (decError c)) DecryptError.IOWrite).2.2.2 = _ ∧
    Effect sys (match StreamSrc.decrypt.key_decrypt sys.prims.aead sys.prims { inp := readerBytes sys (readerOf inf) } {} sk pk (asymFmt .V1)
      ((readerBytes sys (readerOf inf)).length + 1) with
    | none => (out_of_fuel sys, readerOf inf, writerOf outf, Except.error (DecryptError.Other []))
    | some (res, s', k') => finish sys (readerOf inf) (writerOf outf) s' k'
        (match res with | .ok spk => Except.ok (RsStr.PublicKey.mk spk) | .error c => Except.error (decError c)) DecryptError.IOWrite).1 _
  rw [StreamSrc.key_decrypt_eq _ _ _ _ _ _ _ (Nat.le_refl _), readerBytes_eq sys inf hpos]
  exact finish_spec sys inf outf _ _ _ _ (acct_keyDecryptIO _ _ _ _ _ acct_empty)

/-- `key_encrypt` as the command calls it (no ephemeral key, no payload key supplied), nothing drawn before: the payload key
    is the first value of the process's randomness, the ephemeral private key the second; if its public key cannot be derived
    the call fails without touching files or standard output -/
theorem lib_key_encrypt (sys : Sys) (inf outf : Option Str) (sk spk rpk : Bytes) (hpos : sys.stdinPos = 0) (hd : sys.draws = 0) :
    match sys.prims.pub sys.rnd.b with
    | none =>
      (∃ e, (streamLib.key_encrypt sys (readerOf inf) (writerOf outf) ⟨sk⟩ ⟨spk⟩ ⟨rpk⟩ none none none .V1).2.2.2 = .error e) ∧
      Effect sys (streamLib.key_encrypt sys (readerOf inf) (writerOf outf) ⟨sk⟩ ⟨spk⟩ ⟨rpk⟩ none none none .V1).1 (sys.world, [])
    | some epk =>
      (streamLib.key_encrypt sys (readerOf inf) (writerOf outf) ⟨sk⟩ ⟨spk⟩ ⟨rpk⟩ none none none .V1).2.2.2 =
        encResult (keyEncryptIO sys.prims sk spk rpk sys.rnd.b epk sys.rnd.a { inp := readerContent sys.world (readerOf inf) } {}).1 ∧
      Effect sys (streamLib.key_encrypt sys (readerOf inf) (writerOf outf) ⟨sk⟩ ⟨spk⟩ ⟨rpk⟩ none none none .V1).1
        (deliver sys.world outf
          (keyEncryptIO sys.prims sk spk rpk sys.rnd.b epk sys.rnd.a { inp := readerContent sys.world (readerOf inf) } {}).2.2) := by
  -- the state after the two draws
  let sys2 : Sys := { sys with draws := sys.draws + 1 + 1 }
  have hcall : streamLib.key_encrypt sys (readerOf inf) (writerOf outf) ⟨sk⟩ ⟨spk⟩ ⟨rpk⟩ none none none .V1 =
      match sys.prims.pub sys.rnd.b with
      | none => (sys2, readerOf inf, writerOf outf, .error (.Other "Key exchange failed".toList))
      | some epk =>
        match StreamSrc.encrypt.key_encrypt sys2.prims.aead sys2.prims (fun _ => []) { inp := readerBytes sys2 (readerOf inf) } {} sk spk
            rpk (some sys.rnd.b) (some epk) (some sys.rnd.a) (asymFmt .V1) ((readerBytes sys2 (readerOf inf)).length + 2) with
        | none => (out_of_fuel sys2, readerOf inf, writerOf outf, .error (.Other []))
        | some (res, s', k') => finish sys2 (readerOf inf) (writerOf outf) s' k' (encResult res) .IOWrite := by
    simp only [streamLib, drawPayload, drawEphemeral, PrivateKey.generate, PrivateKey.to_public, secure_random,
      Nat.add_one_ne_zero, if_false, if_pos hd]
    cases sys.prims.pub sys.rnd.b <;> rfl
  rw [hcall]
  cases hp : sys.prims.pub sys.rnd.b with
  | none => exact ⟨⟨_, rfl⟩, rfl, (List.append_nil _).symm, rfl, rfl, rfl, rfl, rfl⟩
  | some epk =>
    simp only []
    rw [StreamSrc.key_encrypt_eq _ _ _ _ _ _ _ _ _ _ _ _ (show _ + _ + 2 ≤ (readerBytes sys2 (readerOf inf)).length + 2 from Nat.le_refl _),
      readerBytes_eq sys2 inf hpos]
    exact finish_spec sys2 inf outf _ _ _ _ (acct_keyEncryptIO _ _ _ _ _ _ _ _ _ acct_empty)

/-! ### E. the model's commands split at the library call, and the composition -/

/-- the part of an outcome `Agrees` looks at, for a command that got as far as the library call: world and output as
    delivered, exit code 0 exactly on success -/
def Summary (o : Outcome) (res : Res) (d : World × Bytes) : Prop :=
  o.world = d.1 ∧ o.stdout = d.2 ∧ (res = .ok → o.exit = 0) ∧ (res ≠ .ok → o.exit = 1)

theorem summary_tail (res : Res) (d : World × Bytes) (o0 o1 : Outcome) (h0 : o0.exit = 0 ∧ o0.world = d.1 ∧ o0.stdout = d.2)
    (h1 : o1.exit = 1 ∧ o1.world = d.1 ∧ o1.stdout = d.2) : Summary (if res = .ok then o0 else o1) res d := by
  by_cases h : res = .ok
  · rw [if_pos h]; exact ⟨h0.2.1, h0.2.2, fun _ => h0.1, fun h' => absurd h h'⟩
  · rw [if_neg h]; exact ⟨h1.2.1, h1.2.2, fun h' => absurd h' h, fun _ => h1.1⟩

theorem runPassDecrypt_ok (P : Prims) (w : World) (inf outf : Option Str) (e : Bool) (input pw : Bytes)
    (h : passPrefix w inf outf e = .ok (input, pw)) :
    Summary (runPassDecrypt P w inf outf e) (passDecryptIO P pw { inp := input } {}).1
      (deliver w outf (passDecryptIO P pw { inp := input } {}).2.2) := by
  rw [runPassDecrypt_prefix, h]
  exact summary_tail _ _ _ _ ⟨rfl, rfl, rfl⟩ ⟨rfl, rfl, rfl⟩

theorem runPassEncrypt_ok (P : Prims) (rnd : Rand) (w : World) (inf outf : Option Str) (e : Bool) (input pw : Bytes)
    (h : passPrefix w inf outf e = .ok (input, pw)) :
    Summary (runPassEncrypt P rnd w inf outf e) (passEncryptIO P pw rnd.a { inp := input } {}).1
      (deliver w outf (passEncryptIO P pw rnd.a { inp := input } {}).2.2) := by
  rw [runPassEncrypt_prefix, h]
  exact summary_tail _ _ _ _ ⟨rfl, rfl, rfl⟩ ⟨rfl, rfl, rfl⟩

theorem runDecrypt_ok (P : Prims) (w : World) (inf : Option Str) (to : Str) (outf kr : Option Str) (e : Bool)
    (input : Bytes) (ks : List Keyring.Key) (sk pk : Bytes) (h : decryptPrefix w inf to outf kr e = .ok (input, ks, sk, pk)) :
    Summary (runDecrypt P w inf to outf kr e) (keyDecryptIO P sk pk { inp := input } {}).1
      (deliver w outf (keyDecryptIO P sk pk { inp := input } {}).2.2.1) := by
  unfold runDecrypt
  unfold decryptPrefix at h
  by_cases hs : sameFile inf outf = true
  · rw [if_pos hs] at h; cases h
  · rw [if_neg hs] at h ⊢
    cases hi : openInput w inf with
    | error c' => rw [hi] at h; cases h
    | ok input' =>
      rw [hi] at h; simp only [] at h ⊢
      cases hk : openKeyring w kr with
      | error c' => rw [hk] at h; cases h
      | ok ks' =>
        rw [hk] at h; simp only [] at h ⊢
        cases hu : unlockNamed w ks' to e with
        | error c' => rw [hu] at h; cases h
        | ok p =>
          obtain ⟨sk', pk'⟩ := p
          rw [hu] at h; cases h
          exact summary_tail _ _ _ _ ⟨rfl, rfl, rfl⟩ ⟨rfl, rfl, rfl⟩

theorem runEncrypt_ok (P : Prims) (rnd : Rand) (w : World) (inf : Option Str) (to fr : Str) (outf kr : Option Str) (e : Bool)
    (input rpk sk spk : Bytes) (h : encryptPrefix w inf to fr outf kr e = .ok (input, rpk, sk, spk)) :
    match P.pub rnd.b with
    | none => runEncrypt P rnd w inf to fr outf kr e = fail w (.crypto .other)
    | some epk =>
      Summary (runEncrypt P rnd w inf to fr outf kr e) (keyEncryptIO P sk spk rpk rnd.b epk rnd.a { inp := input } {}).1
        (deliver w outf (keyEncryptIO P sk spk rpk rnd.b epk rnd.a { inp := input } {}).2.2) := by
  unfold runEncrypt
  unfold encryptPrefix at h
  by_cases hs : sameFile inf outf = true
  · rw [if_pos hs] at h; cases h
  · rw [if_neg hs] at h ⊢
    cases hi : openInput w inf with
    | error c' => rw [hi] at h; cases h
    | ok input' =>
      rw [hi] at h; simp only [] at h ⊢
      cases hk : openKeyring w kr with
      | error c' => rw [hk] at h; cases h
      | ok ks =>
        rw [hk] at h; simp only [] at h ⊢
        cases hg : Keyring.getKey ks to with
        | none => rw [hg] at h; cases h
        | some rkey =>
          rw [hg] at h; simp only [] at h ⊢
          cases hd : Keyring.decodePk rkey.pk with
          | error c' => rw [hd] at h; cases h
          | ok rpk' =>
            rw [hd] at h; simp only [] at h ⊢
            cases hu : unlockNamed w ks fr e with
            | error c' => rw [hu] at h; cases h
            | ok p =>
              obtain ⟨sk', spk'⟩ := p
              rw [hu] at h; cases h
              simp only []
              cases P.pub rnd.b with
              | none => rfl
              | some epk => exact summary_tail _ _ _ _ ⟨rfl, rfl, rfl⟩ ⟨rfl, rfl, rfl⟩

/-- putting a command together: the state handed to the library call (`sys1`), what the call did (`Effect`, in the model's
    terms), the rest of the command (`SameButStderr`), and the model's outcome -/
theorem agrees_compose {sys sys1 lo : Sys} {x : Sys × Except AnyErr Unit} {o : Outcome} {d : World × Bytes}
    (h1 : SameButStderr sys sys1) (he : Effect sys1 lo d) (h2 : SameButStderr lo x.1)
    (hw : o.world = d.1) (hs : o.stdout = d.2)
    (hr : (x.2 = .ok () ∧ o.exit = 0) ∨ ((∃ e, x.2 = .error e) ∧ o.exit = 1)) : Agrees sys x o := by
  obtain ⟨e1, e2, e3, e4, e5, e6, e7⟩ := he
  refine ⟨?_, ?_, hr, ?_, ?_, ?_, ?_, ?_⟩
  · rw [← h2.world, e1, hw]
  · rw [← h2.stdout, e2, ← h1.stdout, hs]
  · rw [← h2.args, e3, ← h1.args]
  · rw [← h2.exit, e4, ← h1.exit]
  · rw [← h2.outOfFuel, e5, ← h1.outOfFuel]
  · rw [← h2.prims, e6, ← h1.prims]
  · rw [← h2.rnd, e7, ← h1.rnd]

theorem decResult_ok (r : Res) : decResult r = .ok () ↔ r = .ok := by cases r <;> simp [decResult]
theorem encResult_ok (r : Res) : encResult r = .ok () ↔ r = .ok := by cases r <;> simp [encResult]
theorem collapseFormat_ok (r : Res) : StreamSrc.collapseFormat r = .ok ↔ r = .ok := by cases r <;> simp [StreamSrc.collapseFormat]

theorem decResult_cases (r : Res) : (r = .ok ∧ decResult r = .ok ()) ∨ (r ≠ .ok ∧ ∃ e, decResult r = .error e) := by
  cases r <;> simp [decResult]
theorem encResult_cases (r : Res) : (r = .ok ∧ encResult r = .ok ()) ∨ (r ≠ .ok ∧ ∃ e, encResult r = .error e) := by
  cases r <;> simp [encResult]

/-- the common last step: the library result is `Ok` exactly when the model's result class is `ok`, and the command hands
    that on -/
theorem result_agrees {ε : Type} {x : Sys × Except AnyErr Unit} {o : Outcome} {res : Res} {lr : Except ε Unit}
    (hc : (res = .ok ∧ lr = .ok ()) ∨ (res ≠ .ok ∧ ∃ e, lr = .error e))
    (hok : lr = .ok () → x.2 = .ok ()) (herr : ∀ e, lr = .error e → ∃ err, x.2 = .error err)
    (h0 : res = .ok → o.exit = 0) (h1 : res ≠ .ok → o.exit = 1) :
    (x.2 = .ok () ∧ o.exit = 0) ∨ ((∃ e, x.2 = .error e) ∧ o.exit = 1) := by
  rcases hc with ⟨hr, hl⟩ | ⟨hr, e, hl⟩
  · exact Or.inl ⟨hok hl, h0 hr⟩
  · exact Or.inr ⟨herr e hl, h1 hr⟩

/-- **pass_decrypt, composed.** -/
theorem pass_decrypt_full (sys : Sys) (o : commands.PasswordOptions) (hpos : sys.stdinPos = 0) :
    Agrees sys (commands.pass_decrypt streamLib sys o) (runPassDecrypt sys.prims sys.world o.infile o.outfile o.env_pass) := by
  have h := pass_decrypt_spec streamLib sys o
  cases hp : passPrefix sys.world o.infile o.outfile o.env_pass with
  | error c =>
    rw [hp] at h; obtain ⟨err, he⟩ := h
    rw [he, runPassDecrypt_prefix, hp]; exact agrees_fail sys err c
  | ok v =>
    obtain ⟨input, pw⟩ := v
    rw [hp] at h
    obtain ⟨hc, sys1, h1, h2, hok, herr⟩ := h
    obtain ⟨hw, hs, he0, he1⟩ := runPassDecrypt_ok sys.prims _ _ _ _ _ _ hp
    obtain ⟨hres, heff⟩ := lib_pass_decrypt sys1 o.infile o.outfile pw (h1.stdinPos ▸ hpos)
    rw [← h1.world, ← h1.prims, hc] at hres heff
    refine agrees_compose h1 heff h2 hw hs (result_agrees (res := (passDecryptIO sys.prims pw { inp := input } {}).1) ?_ hok herr he0 he1)
    rw [hres]
    rcases decResult_cases (StreamSrc.collapseFormat (passDecryptIO sys.prims pw { inp := input } {}).1) with ⟨a, b⟩ | ⟨a, b⟩
    · exact Or.inl ⟨(collapseFormat_ok _).mp a, b⟩
    · exact Or.inr ⟨fun h' => a ((collapseFormat_ok _).mpr h'), b⟩

/-- **pass_encrypt, composed.** -/
theorem pass_encrypt_full (sys : Sys) (o : commands.PasswordOptions) (hf : 1 ≤ sys.fuel) (hd : sys.draws = 0)
    (hpos : sys.stdinPos = 0) :
    Agrees sys (commands.pass_encrypt streamLib sys o)
      (runPassEncrypt sys.prims sys.rnd sys.world o.infile o.outfile o.env_pass) := by
  have h := pass_encrypt_spec streamLib sys o hf hd
  cases hp : passPrefix sys.world o.infile o.outfile o.env_pass with
  | error c =>
    rw [hp] at h; obtain ⟨err, he⟩ := h
    rw [he, runPassEncrypt_prefix, hp]; exact agrees_fail sys err c
  | ok v =>
    obtain ⟨input, pw⟩ := v
    rw [hp] at h
    obtain ⟨hc, sys1, h1, h2, hok, herr⟩ := h
    obtain ⟨hw, hs, he0, he1⟩ := runPassEncrypt_ok sys.prims sys.rnd _ _ _ _ _ _ hp
    obtain ⟨hres, heff⟩ := lib_pass_encrypt sys1 o.infile o.outfile pw sys.rnd.a (h1.stdinPos ▸ hpos)
    rw [← h1.world, ← h1.prims, hc] at hres heff
    refine agrees_compose h1 heff h2 hw hs (result_agrees ?_ hok herr he0 he1)
    rw [hres]
    exact encResult_cases _

/-- **decrypt, composed.** -/
theorem decrypt_full (sys : Sys) (o : commands.DecryptOptions) (hf : 1 ≤ sys.fuel) (hpos : sys.stdinPos = 0) :
    Agrees sys (commands.decrypt streamLib sys o)
      (runDecrypt sys.prims sys.world o.infile o.to o.outfile o.keyring o.env_pass) := by
  have h := decrypt_spec streamLib sys o hf
  cases hp : decryptPrefix sys.world o.infile o.to o.outfile o.keyring o.env_pass with
  | error c =>
    rw [hp] at h; obtain ⟨err, he⟩ := h
    rw [he, runDecrypt_prefix_error _ _ _ _ _ _ _ c hp]; exact agrees_fail sys err c
  | ok v =>
    obtain ⟨input, ks, sk, pk⟩ := v
    rw [hp] at h
    obtain ⟨hc, sys1, h1, h2, hok, herr⟩ := h
    obtain ⟨hw, hs, he0, he1⟩ := runDecrypt_ok sys.prims _ _ _ _ _ _ _ _ _ _ hp
    obtain ⟨hres, heff⟩ := lib_key_decrypt sys1 o.infile o.outfile sk pk (h1.stdinPos ▸ hpos)
    rw [← h1.world, ← h1.prims, hc] at hres heff
    refine agrees_compose h1 heff h2 hw hs ?_
    obtain ⟨hs1, hs2⟩ := keyDecryptIO_sender sys.prims sk pk { inp := input } {}
    by_cases hr : (keyDecryptIO sys.prims sk pk { inp := input } {}).1 = .ok
    · obtain ⟨spk, hspk⟩ := hs1 hr
      rw [hspk] at hres
      exact Or.inl ⟨hok ⟨_, hres⟩, he0 hr⟩
    · rw [hs2 hr] at hres
      exact Or.inr ⟨herr _ hres, he1 hr⟩

/-- **encrypt, composed.** -/
theorem encrypt_full (sys : Sys) (o : commands.EncryptOptions) (hf : 1 ≤ sys.fuel) (hd : sys.draws = 0)
    (hpos : sys.stdinPos = 0) :
    Agrees sys (commands.encrypt streamLib sys o)
      (runEncrypt sys.prims sys.rnd sys.world o.infile o.to o.from o.outfile o.keyring o.env_pass) := by
  have h := encrypt_spec_draws streamLib sys o hf
  cases hp : encryptPrefix sys.world o.infile o.to o.from o.outfile o.keyring o.env_pass with
  | error c =>
    rw [hp] at h; obtain ⟨err, he⟩ := h
    rw [he, runEncrypt_prefix_error _ _ _ _ _ _ _ _ _ c hp]; exact agrees_fail sys err c
  | ok v =>
    obtain ⟨input, rpk, sk, spk⟩ := v
    rw [hp] at h
    obtain ⟨hc, sys1, ⟨h1, hd1⟩, h2, hok, herr⟩ := h
    have hm := runEncrypt_ok sys.prims sys.rnd _ _ _ _ _ _ _ _ _ _ _ hp
    have hl := lib_key_encrypt sys1 o.infile o.outfile sk spk rpk (h1.stdinPos ▸ hpos) (hd1.trans hd)
    rw [← h1.world, ← h1.prims, ← h1.rnd, hc] at hl
    cases hpub : sys.prims.pub sys.rnd.b with
    | none =>
      rw [hpub] at hm hl
      obtain ⟨⟨e, hres⟩, heff⟩ := hl
      rw [hm]
      exact agrees_compose h1 heff h2 rfl rfl (Or.inr ⟨herr e hres, rfl⟩)
    | some epk =>
      rw [hpub] at hm hl
      obtain ⟨hw, hs, he0, he1⟩ := hm
      obtain ⟨hres, heff⟩ := hl
      refine agrees_compose h1 heff h2 hw hs (result_agrees ?_ hok herr he0 he1)
      rw [hres]
      exact encResult_cases _

/-! ### the whole program -/

/-- what `--help` / `--version` print (the model's outcome does not carry these two texts) -/
def helpText : Request → Bytes
  | .help => Keyring.utf8 (USAGE ++ "\n".toList)
  | .version => Keyring.utf8 ("v".toList ++ VERSION ++ "\n".toList)
  | _ => []

/-- `Agrees` with a text `t` the program prints to standard output after the model's output (`t = []`: `Agrees`) -/
def AgreesText (sys : Sys) (r : Sys × Except AnyErr Unit) (o : Outcome) (t : Bytes) : Prop :=
  r.1.world = o.world ∧ r.1.stdout = sys.stdout ++ o.stdout ++ t ∧
  ((r.2 = .ok () ∧ o.exit = 0) ∨ ((∃ e, r.2 = .error e) ∧ o.exit = 1)) ∧
  r.1.args = sys.args ∧ r.1.exit = sys.exit ∧ r.1.outOfFuel = sys.outOfFuel ∧ r.1.prims = sys.prims ∧ r.1.rnd = sys.rnd

theorem agreesText_nil (sys : Sys) (r : Sys × Except AnyErr Unit) (o : Outcome) : AgreesText sys r o [] ↔ Agrees sys r o := by
  unfold AgreesText Agrees
  rw [List.append_nil]

end CliSrc
end Kestrel

