/-
  Small list facts used by KestrelProps/{C07,C08,C11,C16}.lean that core does not have in this form.
-/
import KestrelModel.Bytes
namespace Kestrel

/-- a list whose image under `f` has no duplicates: `f` is injective on its members -/
theorem nodup_map_inj {α β : Type} (f : α → β) : ∀ (l : List α), (l.map f).Nodup →
    ∀ a ∈ l, ∀ b ∈ l, f a = f b → a = b := by
  intro l
  induction l with
  | nil => intro _ a ha; cases ha
  | cons x xs ih =>
    intro hnd a ha b hb hab
    rw [List.map_cons, List.nodup_cons] at hnd
    rcases List.mem_cons.mp ha with rfl | ha'
    · rcases List.mem_cons.mp hb with rfl | hb'
      · rfl
      · exact absurd (hab ▸ List.mem_map_of_mem (f := f) hb') hnd.1
    · rcases List.mem_cons.mp hb with rfl | hb'
      · exact absurd (hab ▸ List.mem_map_of_mem (f := f) ha') hnd.1
      · exact ih hnd.2 a ha' b hb' hab

/-- mapping a duplicate-free list by a function that is injective on its members keeps it duplicate-free -/
theorem nodup_map_of_inj_on {α β : Type} (f : α → β) : ∀ (l : List α), l.Nodup →
    (∀ a ∈ l, ∀ b ∈ l, f a = f b → a = b) → (l.map f).Nodup := by
  intro l
  induction l with
  | nil => intro _ _; exact List.nodup_nil
  | cons x xs ih =>
    intro hnd hinj
    rw [List.nodup_cons] at hnd
    rw [List.map_cons, List.nodup_cons]
    refine ⟨?_, ih hnd.2 (fun a ha b hb => hinj a (List.mem_cons_of_mem _ ha) b (List.mem_cons_of_mem _ hb))⟩
    intro hmem
    obtain ⟨y, hy, hfy⟩ := List.mem_map.mp hmem
    have := hinj y (List.mem_cons_of_mem _ hy) x (List.mem_cons_self) hfy
    subst this
    exact hnd.1 hy

end Kestrel
