/-
  Helper lemmas for KestrelProps/StreamSrc.lean: the Lean code *generated from* `src/crypto/src/encrypt.rs` and `decrypt.rs`
  (KestrelModel/GeneratedStream.lean, namespace `Kestrel.StreamSrc`, produced by tools/rs2lean_stream.py) equals the
  hand-written I/O-level model `encryptChunksIO` / `decryptChunksIO` (KestrelModel/Chunks.lean) on every source / sink script.

  Route, for each of the two functions:
    *_body : one run of the translated loop body (`<fn>.loop1`) = one unfolding of `encLoopIO` / `decLoopIO`, as a `Rs.Flow`;
    *_loop : `Rs.loop` of the body with any fuel above the measure = the model loop with any fuel above the measure;
    *_eq   : the function itself.
  File level (`pass_encrypt`, `pass_decrypt`, `key_encrypt`, `key_decrypt`): header I/O unfolded against `passEncryptIO` … ,
  then the chunk theorem; `collapseFormat` / `keyResult` say how the model's result classes read as the Rust results.
  The buffers of the Rust code are related to the model's values by simple invariants: `buff.length = cs`,
  `auth_data.length = aad.len() + 8`, `prev[..prev_read]` is the model's `prev` (the rest of `prev` is stale), `done = false`
  at the head of the decrypt loop.
-/
import KestrelModel.GeneratedStream
import KestrelProofs.EncIO
import KestrelProofs.IOBasics
import KestrelProofs.DecIO
import KestrelModel.File
namespace Kestrel
namespace StreamSrc

theorem copyFromSlice_eq {α} (dst src : List α) (h : dst.length = src.length) : Rs.copyFromSlice dst src = src := by
  unfold Rs.copyFromSlice
  rw [h, List.take_length, List.drop_eq_nil_of_le (Nat.le_of_eq h), List.append_nil]

theorem be32_truncU32 (n : Nat) : be32 (Rs.truncU32 n) = be32 n := by
  unfold be32 Rs.truncU32
  have h1 : n % 2^32 / 2^24 % 256 = n / 2^24 % 256 := by omega
  have h2 : n % 2^32 / 2^16 % 256 = n / 2^16 % 256 := by omega
  have h3 : n % 2^32 / 2^8 % 256 = n / 2^8 % 256 := by omega
  have h4 : n % 2^32 % 256 = n % 256 := by omega
  rw [h1, h2, h3, h4]

/-- the three `copy_from_slice` calls that fill `auth_data` -/
theorem auth_fill (auth aad lastB lenB : Bytes) (ha : auth.length = aad.length + 8) (h1 : lastB.length = 4) (h2 : lenB.length = 4) :
    let a1 := Rs.copyFromSlice (auth.take aad.length) aad ++ auth.drop aad.length
    let a2 := a1.take aad.length ++ Rs.copyFromSlice ((a1.drop aad.length).take (aad.length + 4 - aad.length)) lastB ++ a1.drop (aad.length + 4)
    let a3 := a2.take (aad.length + 4) ++ Rs.copyFromSlice (a2.drop (aad.length + 4)) lenB
    a3 = aad ++ lastB ++ lenB := by
  intro a1 a2 a3
  have e1 : a1 = aad ++ auth.drop aad.length := by
    show Rs.copyFromSlice (auth.take aad.length) aad ++ auth.drop aad.length = _
    rw [copyFromSlice_eq _ _ (by rw [List.length_take]; omega)]
  have e2 : a2 = aad ++ lastB ++ auth.drop (aad.length + 4) := by
    show a1.take aad.length ++ Rs.copyFromSlice ((a1.drop aad.length).take (aad.length + 4 - aad.length)) lastB ++ a1.drop (aad.length + 4) = _
    rw [e1, List.take_left', List.drop_left', copyFromSlice_eq _ _ (by rw [List.length_take, List.length_drop]; omega)]
    congr 1
    rw [show aad.length + 4 = aad.length + 4 from rfl, ← List.drop_drop, List.drop_left', List.drop_drop]
    rfl; rfl; rfl
  show a2.take (aad.length + 4) ++ Rs.copyFromSlice (a2.drop (aad.length + 4)) lenB = _
  have hl : (aad ++ lastB).length = aad.length + 4 := by rw [List.length_append, h1]
  rw [e2, ← hl, List.take_left', List.drop_left', copyFromSlice_eq _ _ (by rw [List.length_drop]; omega)]
  rfl; rfl

/-- the three `copy_from_slice` calls that fill `chunk_header` -/
theorem hdr_fill (h0 c lastB lenB : Bytes) (hh : h0.length = 16) (hc : c.length = 8) (h1 : lastB.length = 4) (h2 : lenB.length = 4) :
    let a1 := Rs.copyFromSlice (h0.take 8) c ++ h0.drop 8
    let a2 := a1.take 8 ++ Rs.copyFromSlice ((a1.drop 8).take (12 - 8)) lastB ++ a1.drop 12
    let a3 := a2.take 12 ++ Rs.copyFromSlice (a2.drop 12) lenB
    a3 = c ++ lastB ++ lenB := by
  intro a1 a2 a3
  have e1 : a1 = c ++ h0.drop 8 := by
    show Rs.copyFromSlice (h0.take 8) c ++ h0.drop 8 = _
    rw [copyFromSlice_eq _ _ (by rw [List.length_take]; omega)]
  have e2 : a2 = c ++ lastB ++ h0.drop 12 := by
    show a1.take 8 ++ Rs.copyFromSlice ((a1.drop 8).take (12 - 8)) lastB ++ a1.drop 12 = _
    rw [e1, List.take_left' hc, List.drop_left' hc, copyFromSlice_eq _ _ (by rw [List.length_take, List.length_drop]; omega)]
    congr 1
    rw [show 12 = 8 + 4 from rfl, ← List.drop_drop, List.drop_left' hc, List.drop_drop]
  show a2.take 12 ++ Rs.copyFromSlice (a2.drop 12) lenB = _
  have hl : (c ++ lastB).length = 12 := by rw [List.length_append, h1, hc]
  rw [e2, List.take_left' hl, List.drop_left' hl, copyFromSlice_eq _ _ (by rw [List.length_drop]; omega)]


theorem hdr_fill' (h0 c lastB lenB : Bytes) (hh : h0.length = 16) (hc : c.length = 8) (h1 : lastB.length = 4) (h2 : lenB.length = 4) :
    List.take 12 (List.take 8 (Rs.copyFromSlice (List.take 8 h0) c ++ List.drop 8 h0) ++
        Rs.copyFromSlice (List.take (12 - 8) (List.drop 8 (Rs.copyFromSlice (List.take 8 h0) c ++ List.drop 8 h0))) lastB ++
        List.drop 12 (Rs.copyFromSlice (List.take 8 h0) c ++ List.drop 8 h0)) ++
      Rs.copyFromSlice (List.drop 12 (List.take 8 (Rs.copyFromSlice (List.take 8 h0) c ++ List.drop 8 h0) ++
        Rs.copyFromSlice (List.take (12 - 8) (List.drop 8 (Rs.copyFromSlice (List.take 8 h0) c ++ List.drop 8 h0))) lastB ++
        List.drop 12 (Rs.copyFromSlice (List.take 8 h0) c ++ List.drop 8 h0))) lenB = c ++ lastB ++ lenB :=
  hdr_fill h0 c lastB lenB hh hc h1 h2

theorem auth_fill' (auth aad lastB lenB : Bytes) (ha : auth.length = aad.length + 8) (h1 : lastB.length = 4) (h2 : lenB.length = 4) :
    List.take (aad.length + 4) (List.take aad.length (Rs.copyFromSlice (List.take aad.length auth) aad ++ List.drop aad.length auth) ++
        Rs.copyFromSlice (List.take (aad.length + 4 - aad.length) (List.drop aad.length
          (Rs.copyFromSlice (List.take aad.length auth) aad ++ List.drop aad.length auth))) lastB ++
        List.drop (aad.length + 4) (Rs.copyFromSlice (List.take aad.length auth) aad ++ List.drop aad.length auth)) ++
      Rs.copyFromSlice (List.drop (aad.length + 4) (List.take aad.length (Rs.copyFromSlice (List.take aad.length auth) aad ++ List.drop aad.length auth) ++
        Rs.copyFromSlice (List.take (aad.length + 4 - aad.length) (List.drop aad.length
          (Rs.copyFromSlice (List.take aad.length auth) aad ++ List.drop aad.length auth))) lastB ++
        List.drop (aad.length + 4) (Rs.copyFromSlice (List.take aad.length auth) aad ++ List.drop aad.length auth))) lenB = aad ++ lastB ++ lenB :=
  auth_fill auth aad lastB lenB ha h1 h2

open encrypt in
theorem enc_body (A : Aead) (key aad : Bytes) (cs : Nat) (s : Src) (k : Snk) (ctr : Nat) (done : Bool) (buff auth prev junk : Bytes)
    (hb : buff.length = cs) (ha : auth.length = aad.length + 8) :
    encrypt_chunks.loop1 A key aad (s, buff, done, auth, k, prev ++ junk, prev.length, ctr) =
      match s.read cs with
      | (.err, s') => .ret (.ioRead, s', k)
      | (.interrupted, s') => .ret (.ioRead, s', k)
      | (.got r, s') =>
        if r.length ≠ 0 && done then .ret (.unexpectedData, s', k) else
        let done' := done || r.length == 0
        let lastB := be32 (if done' then 1 else 0)
        let lenB := be32 prev.length
        match writeRecord k (s'.pos, s'.nreads) (be64 ctr ++ lastB ++ lenB) (A.enc key ctr (aad ++ lastB ++ lenB) prev) with
        | (false, k') => .ret (.ioWrite, s', k')
        | (true, k') =>
          if done' then .brk (s', r ++ buff.drop r.length, done', aad ++ lastB ++ lenB, k', prev ++ junk, prev.length, ctr)
          else .next (s', r ++ buff.drop r.length, done', aad ++ lastB ++ lenB, k', r ++ buff.drop r.length, r.length, ctr + 1) := by
  unfold encrypt_chunks.loop1
  simp only [RsIO.read, hb]
  rcases hrd : s.read cs with ⟨r | _ | _, s'⟩
  · simp only [hdr_fill' _ _ _ _ (List.length_replicate ..) (be64_length _) (be32_length _) (be32_length _),
      auth_fill' _ _ _ _ ha (be32_length _) (be32_length _), be32_truncU32, List.take_left' rfl, Except.mapError]
    cases done <;> by_cases hr : r.length = 0 <;>
      simp [hr, writeRecord, RsIO.writeAll, RsIO.flush, write_err]
    all_goals
      rcases hw1 : Snk.writeAll (s'.pos, s'.nreads) _ k (be64 ctr ++ _) with ⟨_ | _, k1⟩
      · simp only []
      · simp only []
        rcases hw2 : Snk.writeAll (s'.pos, s'.nreads) _ k1 _ with ⟨_ | _, k2⟩
        · simp only []
        · simp only []
          rcases hf : k2.flush with ⟨_ | _, k3⟩ <;> simp [hr]
  · simp only [Except.mapError, read_err]
  · simp only [Except.mapError, read_err]

/-- what `encrypt_chunks` does with the outcome of its loop -/
def encFinish : Rs.LoopOut (Src × Bytes × Bool × Bytes × Snk × Bytes × Nat × Nat) (Res × Src × Snk) → Option (Res × Src × Snk)
  | .ret r => some r
  | .outOfFuel => none
  | .brk (p, _, _, _, c, _) => some (Res.ok, p, c)

open encrypt in
theorem enc_loop (A : Aead) (key aad : Bytes) (cs : Nat) : ∀ (g f ctr : Nat) (prev : Bytes) (done : Bool) (s : Src) (k : Snk)
    (buff auth junk : Bytes), buff.length = cs → auth.length = aad.length + 8 →
    s.inp.length + s.script.length + 1 ≤ g → s.inp.length + s.script.length + 1 ≤ f →
    encFinish (Rs.loop (encrypt_chunks.loop1 A key aad) g (s, buff, done, auth, k, prev ++ junk, prev.length, ctr)) =
      some (encLoopIO A key aad cs f ctr prev done s k) := by
  intro g
  induction g with
  | zero => intro f ctr prev done s k buff auth junk _ _ hg _; omega
  | succ g ih =>
    intro f ctr prev done s k buff auth junk hb ha hg hf
    obtain ⟨f, rfl⟩ : ∃ f', f = f' + 1 := ⟨f - 1, by omega⟩
    rw [Rs.loop_succ, enc_body A key aad cs s k ctr done buff auth prev junk hb ha]
    simp only [encLoopIO]
    rcases hrd : s.read cs with ⟨r | _ | _, s'⟩
    · simp only []
      by_cases hu : (r.length ≠ 0 && done) = true
      · simp only [hu, if_true, encFinish]
      · simp only [hu, Bool.false_eq_true, if_false]
        rcases hw : writeRecord k (s'.pos, s'.nreads) _ _ with ⟨_ | _, k'⟩
        · simp only [encFinish]
        · simp only []
          by_cases hd : (done || r.length == 0) = true
          · simp only [hd, if_true, encFinish]
          · have hr : r.length ≠ 0 := by
              intro h0; apply hd; simp [h0]
            obtain ⟨m, hmc, _, _, hrl, _⟩ := Src.read_got hrd
            have hm := EncIO.read_got_measure hrd hr
            have hd' : (done || r.length == 0) = false := by simpa using hd
            simp only [hd', Bool.false_eq_true, if_false]
            exact ih f (ctr + 1) r false s' k' (r ++ buff.drop r.length) _ (buff.drop r.length)
              (by rw [List.length_append, List.length_drop]; omega)
              (by simp only [List.length_append, be32_length]) (by omega) (by omega)
    · simp only [encFinish]
    · simp only [encFinish]

open encrypt in
/-- the translated `encrypt_chunks` is the hand-written I/O-level model, for every fuel at or above the bound -/
theorem encrypt_chunks_eq (A : Aead) (key aad : Bytes) (cs : Nat) (s : Src) (k : Snk) (fuel : Nat)
    (hf : s.inp.length + s.script.length + 2 ≤ fuel) :
    encrypt_chunks A s k key aad cs fuel = some (encryptChunksIO A key aad cs s k) := by
  unfold encrypt_chunks encryptChunksIO
  simp only [RsIO.read, List.length_replicate]
  rcases hrd : s.read cs with ⟨r | _ | _, s'⟩
  · simp only [Except.mapError]
    have e : (if (List.length r == 0) = true then true else false) = (r.length == 0) := by
      cases (r.length == 0) <;> rfl
    obtain ⟨m, hmc, _, _, hrl, hi, _, _, pre, hsc⟩ := Src.read_got hrd
    have hm : s'.inp.length + s'.script.length ≤ s.inp.length + s.script.length := by
      rw [hi, hsc, List.length_drop, List.length_append]; omega
    rw [e]
    have h := enc_loop A key aad cs fuel (s'.inp.length + s'.script.length + 2) 0 r (r.length == 0) s' k (r ++ List.drop r.length (List.replicate cs 0)) (List.replicate (aad.length + 8) 0)
      (List.drop r.length (List.replicate cs 0))
      (by rw [List.length_append, List.length_drop, List.length_replicate]; omega)
      (List.length_replicate ..) (by omega) (by omega)
    revert h
    generalize Rs.loop (encrypt_chunks.loop1 A key aad) fuel _ = x
    intro h
    rcases x with ⟨p, b, d, a, c, pv, pr, n⟩ | r | _ <;> exact h
  · simp only [Except.mapError, read_err]
  · simp only [Except.mapError, read_err]

/-! ### decrypt -/

/-- case analysis on `write_all` and `flush` at the end of the decrypt loop body -/
local macro "dec_tail" k:term "," s3:term "," pt:term : tactic => `(tactic|
  (rcases hw : Snk.writeAll (Src.pos $s3, Src.nreads $s3) _ $k $pt with ⟨_ | _, k1⟩
   · simp [RsIO.writeAll, hw, decrypt.write_err]
   · rcases hf : Snk.flush k1 with ⟨_ | _, k2⟩ <;> simp [RsIO.writeAll, RsIO.flush, hw, hf, decrypt.write_err]))

theorem dec_read_err (e : RsIO.IoError) : decrypt.read_err e = Res.ioRead := by
  unfold decrypt.read_err; split <;> rfl

open decrypt in
theorem dec_body (A : Aead) (key aad : Bytes) (cs : Nat) (s : Src) (k : Snk) (ctr : Nat) (buffer auth : Bytes)
    (hb : buffer.length = cs + 16) (ha : auth.length = aad.length + 8) :
    decrypt_chunks.loop1 A key aad cs (s, buffer, auth, false, k, ctr) =
      match Src.readExact (s.fuel 16) s 16 with
      | (none, s1) => .ret (.ioRead, s1, k)
      | (some hdr, s1) =>
        let lastB := (hdr.drop 8).take 4
        let lenB := hdr.drop 12
        let len := beVal lenB
        if len > cs then .ret (.chunkLen, s1, k) else
        match Src.readExact (s1.fuel (len + 16)) s1 (len + 16) with
        | (none, s2) => .ret (.ioRead, s2, k)
        | (some body, s2) =>
          match A.dec key ctr (aad ++ lastB ++ lenB) body with
          | none => .ret (.auth, s2, k)
          | some pt =>
            let last := beVal lastB == 1
            let probe : Option Res × Src :=
              if last then
                match s2.read 1 with
                | (.err, s3) => (some .ioRead, s3)
                | (.interrupted, s3) => (some .ioRead, s3)
                | (.got b, s3) => if b.length ≠ 0 then (some .unexpectedData, s3) else (none, s3)
              else (none, s2)
            match probe with
            | (some e, s3) => .ret (e, s3, k)
            | (none, s3) =>
              match Snk.writeAll (s3.pos, s3.nreads) (k.wfuel pt) k pt with
              | (false, k1) => .ret (.ioWrite, s3, k1)
              | (true, k1) =>
                match k1.flush with
                | (false, k2) => .ret (.ioWrite, s3, k2)
                | (true, k2) =>
                  if last then .brk (s3, body ++ buffer.drop (len + 16), aad ++ lastB ++ lenB, true, k2, ctr)
                  else .next (s3, body ++ buffer.drop (len + 16), aad ++ lastB ++ lenB, false, k2, ctr + 1) := by
  unfold decrypt_chunks.loop1
  simp only [RsIO.readExact, List.length_replicate, TAG_SIZE]
  rcases hr1 : Src.readExact (s.fuel 16) s 16 with ⟨_ | hdr, s1⟩
  · simp only [Except.mapError, dec_read_err]
  · obtain ⟨_, hhl, _⟩ := Src.readExact_some _ _ _ _ _ hr1
    have hl1 : (List.take (12 - 8) (List.drop 8 hdr)).length = 4 := by
      rw [List.length_take, List.length_drop, hhl]; rfl
    have hl2 : (List.drop 12 hdr).length = 4 := by rw [List.length_drop, hhl]
    simp only [Except.mapError, dec_read_err, auth_fill' _ _ _ _ ha hl1 hl2]
    by_cases hlen : beVal (List.drop 12 hdr) > cs
    · simp only [hlen, decide_true, if_true, Rs.Step.andThen_exit]
    · have hbl : (List.take (beVal (List.drop 12 hdr) + 16) buffer).length = beVal (List.drop 12 hdr) + 16 := by
        rw [List.length_take, hb]; omega
      simp only [hlen, decide_false, Bool.false_eq_true, if_false, Rs.Step.andThen_cont, hbl]
      rcases hr2 : Src.readExact (s1.fuel (beVal (List.drop 12 hdr) + 16)) s1 (beVal (List.drop 12 hdr) + 16) with ⟨_ | body, s2⟩
      · simp only []
      · obtain ⟨_, hbody, _⟩ := Src.readExact_some _ _ _ _ _ hr2
        simp only [List.take_left' hbody, show (12 - 8) = 4 from rfl]
        rcases hdec : A.dec key ctr _ body with _ | pt
        · simp [Rs.okOr, errors.From_ChaPolyDecryptError_for_DecryptError]
        · simp only [Rs.okOr]
          by_cases hlast : (beVal (List.take 4 (List.drop 8 hdr)) == 1) = true
          · simp only [hlast, if_true, RsIO.read, List.length_replicate]
            rcases hp : s2.read 1 with ⟨b | _ | _, s3⟩
            · by_cases hb0 : b.length = 0
              · simp [hb0]
                dec_tail k, s3, pt
              · simp [hb0]
            · simp
            · simp
          · simp [hlast]
            dec_tail k, s2, pt

/-- what `decrypt_chunks` does with the outcome of its loop -/
def decFinish : Rs.LoopOut (Src × Bytes × Bytes × Bool × Snk × Nat) (Res × Src × Snk) → Option (Res × Src × Snk)
  | .ret r => some r
  | .outOfFuel => none
  | .brk (c, _, _, _, p, _) => some (Res.ok, c, p)

open decrypt in
theorem dec_loop (A : Aead) (key aad : Bytes) (cs : Nat) : ∀ (g f ctr : Nat) (s : Src) (k : Snk) (buffer auth : Bytes),
    buffer.length = cs + 16 → auth.length = aad.length + 8 → s.inp.length + 1 ≤ g → s.inp.length + 1 ≤ f →
    decFinish (Rs.loop (decrypt_chunks.loop1 A key aad cs) g (s, buffer, auth, false, k, ctr)) =
      some (decLoopIO A key aad cs f ctr s k) := by
  intro g
  induction g with
  | zero => intro f ctr s k buffer auth _ _ hg _; omega
  | succ g ih =>
    intro f ctr s k buffer auth hb ha hg hf
    obtain ⟨f, rfl⟩ : ∃ f', f = f' + 1 := ⟨f - 1, by omega⟩
    rw [Rs.loop_succ, dec_body A key aad cs s k ctr buffer auth hb ha]
    simp only [decLoopIO]
    rcases hr1 : Src.readExact (s.fuel 16) s 16 with ⟨_ | hdr, s1⟩
    · simp only [decFinish]
    · simp only []
      obtain ⟨_, hhl, hi1, _⟩ := Src.readExact_some _ _ _ _ _ hr1
      have h16 := Src.readExact_some_len hr1
      by_cases hlen : beVal (List.drop 12 hdr) > cs
      · simp only [hlen, if_true, decFinish]
      · simp only [hlen, if_false]
        rcases hr2 : Src.readExact (s1.fuel (beVal (List.drop 12 hdr) + 16)) s1 (beVal (List.drop 12 hdr) + 16) with ⟨_ | body, s2⟩
        · simp only [decFinish]
        · simp only []
          obtain ⟨_, hbody, hi2, _⟩ := Src.readExact_some _ _ _ _ _ hr2
          rcases hdec : A.dec key ctr _ body with _ | pt
          · simp only [decFinish]
          · simp only []
            by_cases hlast : (beVal (List.take 4 (List.drop 8 hdr)) == 1) = true
            · simp only [hlast, if_true]
              rcases hp : s2.read 1 with ⟨b | _ | _, s3⟩
              · simp only []
                by_cases hb0 : b.length ≠ 0
                · rw [if_pos hb0]
                  simp only [decFinish]
                · rw [if_neg hb0]
                  simp only []
                  rcases hw : Snk.writeAll (s3.pos, s3.nreads) _ k pt with ⟨_ | _, k1⟩
                  · simp only [decFinish]
                  · simp only []
                    rcases hf : k1.flush with ⟨_ | _, k2⟩ <;> simp only [decFinish]
              · simp only [decFinish]
              · simp only [decFinish]
            · simp only [hlast, Bool.false_eq_true, if_false]
              rcases hw : Snk.writeAll (s2.pos, s2.nreads) _ k pt with ⟨_ | _, k1⟩
              · simp only [decFinish]
              · simp only []
                rcases hf : k1.flush with ⟨_ | _, k2⟩
                · simp only [decFinish]
                · simp only []
                  have hm : s2.inp.length + 16 ≤ s.inp.length := by
                    rw [hi2, hi1, List.length_drop, List.length_drop]; omega
                  exact ih f (ctr + 1) s2 k2 _ _
                    (by rw [List.length_append, List.length_drop, hbody, hb]; omega)
                    (by simp only [List.length_append, List.length_take, List.length_drop, hhl]; omega)
                    (by omega) (by omega)

open decrypt in
/-- the translated `decrypt_chunks` is the hand-written I/O-level model, for every fuel at or above the bound -/
theorem decrypt_chunks_eq (A : Aead) (key aad : Bytes) (cs : Nat) (s : Src) (k : Snk) (fuel : Nat)
    (hf : s.inp.length + 1 ≤ fuel) :
    decrypt_chunks A s k key aad cs fuel = some (decryptChunksIO A key aad cs s k) := by
  unfold decrypt_chunks decryptChunksIO
  have h := dec_loop A key aad cs fuel (s.inp.length + 1) 0 s k (List.replicate (cs + TAG_SIZE) 0) (List.replicate (aad.length + 8) 0)
    (by rw [List.length_replicate]; rfl) (List.length_replicate ..) hf (Nat.le_refl _)
  simp only []
  revert h
  generalize Rs.loop (decrypt_chunks.loop1 A key aad cs) fuel _ = x
  intro h
  rcases x with ⟨c, b, a, d, p, n⟩ | r | _ <;> exact h

/-! ### transfer of properties of the hand-written model to the translated code -/

open EncIO in
/-- every outcome of the translated `encrypt_chunks` is one of four, and the two I/O outcomes have a cause in the scripts -/
theorem enc_failures_surface (A : Aead) (key aad : Bytes) (cs : Nat) (s : Src) (k : Snk) (fuel : Nat)
    (hf : s.inp.length + s.script.length + 2 ≤ fuel) :
    ∃ res s' k', encrypt.encrypt_chunks A s k key aad cs fuel = some (res, s', k') ∧
      (res = .ok ∨ res = .ioRead ∨ res = .ioWrite ∨ res = .unexpectedData) ∧
      (res = .ioRead → Src.hasErr s) ∧ (res = .ioWrite → ¬ Snk.benign k) := by
  refine ⟨_, _, _, encrypt_chunks_eq A key aad cs s k fuel hf, encryptChunksIO_res A key aad cs s k,
    encryptChunksIO_ioRead A key aad cs s k, encryptChunksIO_ioWrite A key aad cs s k⟩

open EncIO in
theorem enc_prefix (A : Aead) (key aad : Bytes) (cs : Nat) (s : Src) (k : Snk) (fuel : Nat)
    (hf : s.inp.length + s.script.length + 2 ≤ fuel) :
    ∃ res s' k' p, encrypt.encrypt_chunks A s k key aad cs fuel = some (res, s', k') ∧ k'.out = k.out ++ p ∧
      p <+: (encryptChunks A key aad (Src.reads cs s)).1 ∧
      (res = .ok → p = (encryptChunks A key aad (Src.reads cs s)).1) := by
  obtain ⟨p, h1, h2, h3⟩ := encryptChunksIO_prefix A key aad cs s k
  exact ⟨_, _, _, p, encrypt_chunks_eq A key aad cs s k fuel hf, h1, h2, h3⟩

open EncIO in
theorem enc_faultFree (A : Aead) (key aad : Bytes) (cs : Nat) (hcs : 0 < cs) (s : Src) (k : Snk) (fuel : Nat)
    (hf : s.inp.length + s.script.length + 2 ≤ fuel) (hs : Src.faultFree s) (hk : Snk.benign k) :
    ∃ s' k', encrypt.encrypt_chunks A s k key aad cs fuel = some (.ok, s', k') ∧
      k'.out = k.out ++ serialize A key aad be64 0 (fileChunks (Src.reads cs s)) ∧ (Src.reads cs s).flatten = s.inp := by
  obtain ⟨h1, h2⟩ := encryptChunksIO_faultFree A key aad cs hcs s k hs hk
  rw [encryptChunks_reads] at h1 h2
  refine ⟨(encryptChunksIO A key aad cs s k).2.1, (encryptChunksIO A key aad cs s k).2.2, ?_, h2, reads_flatten cs hcs s hs⟩
  have h1' : (encryptChunksIO A key aad cs s k).1 = Res.ok := h1
  rw [encrypt_chunks_eq A key aad cs s k fuel hf, ← h1']

theorem dec_whole_chunks (A : Aead) (key aad : Bytes) (cs : Nat) (s : Src) (k : Snk) (fuel : Nat) (hf : s.inp.length + 1 ≤ fuel)
    (hs : s.noFalseEof) (ws : List Bytes) (pres : Res) (hP : decryptChunks A key aad cs s.inp = (ws, pres)) :
    ∃ res s' k' j q, decrypt.decrypt_chunks A s k key aad cs fuel = some (res, s', k') ∧
      k'.out = k.out ++ (ws.take j).flatten ++ q ∧ j ≤ ws.length ∧
      (q = [] ∨ (res = .ioWrite ∧ ∃ w, ws[j]? = some w ∧ q <+: w)) ∧
      (res = .ok → pres = .ok ∧ j = ws.length ∧ q = []) := by
  obtain ⟨j, q, h⟩ := decLoopIO_prefix A key aad cs (s.inp.length + 1) s.inp.length 0 s k _ _ _ ws pres hs
    (Nat.le_refl _) (Nat.le_refl _) rfl hP
  exact ⟨_, _, _, j, q, decrypt_chunks_eq A key aad cs s k fuel hf, h⟩

theorem dec_release_order (A : Aead) (hA : A.Lawful) (key aad : Bytes) (hk : key.length = 32) (cs : Nat) (s : Src) (k : Snk)
    (fuel : Nat) (hf : s.inp.length + 1 ≤ fuel) (hs : s.noFalseEof) (ws : List Bytes) (pres : Res)
    (hP : decryptChunks A key aad cs s.inp = (ws, pres)) :
    ∃ (res : Res) (s' : Src) (k' : Snk) (segs : List (List WLog)), decrypt.decrypt_chunks A s k key aad cs fuel = some (res, s', k') ∧
      k'.log = segs.flatten.reverse ++ k.log ∧ LogSegs s.pos ws segs ∧
      k'.out.length = k.out.length + (segs.flatten.map (·.n)).sum := by
  obtain ⟨segs, h⟩ := decLoopIO_log A hA key aad hk cs (s.inp.length + 1) s.inp.length 0 s k _ _ _ ws pres hs
    (Nat.le_refl _) (Nat.le_refl _) rfl hP
  exact ⟨_, _, _, segs, decrypt_chunks_eq A key aad cs s k fuel hf, h⟩

theorem dec_ioWrite (A : Aead) (key aad : Bytes) (cs : Nat) (s : Src) (k : Snk) (fuel : Nat) (hf : s.inp.length + 1 ≤ fuel)
    (s' : Src) (k' : Snk) (h : decrypt.decrypt_chunks A s k key aad cs fuel = some (.ioWrite, s', k')) : ¬ k.faultFree := by
  rw [decrypt_chunks_eq A key aad cs s k fuel hf, Option.some.injEq] at h
  exact decLoopIO_ioWrite A key aad cs _ 0 s k s' k' h

/-- `valid_file_format` as translated agrees with the hand-written `validFileFormat` whenever the two magic numbers are
    the ones the model reads from the source (`Generated.decAsymMagic`, `decPassMagic`) -/
theorem valid_file_format_eq (h : Bytes) :
    decrypt.valid_file_format h =
      if h = [101, 103, 107, 16] then .ok FileFormat.AsymV1 else if h = [101, 103, 107, 32] then .ok FileFormat.PassV1
      else .error () := by
  unfold decrypt.valid_file_format
  by_cases h1 : h = [101, 103, 107, 16]
  · simp [h1]
  · by_cases h2 : h = [101, 103, 107, 32] <;> simp [h1, h2]


/-! ### file level: `pass_encrypt`, `pass_decrypt` -/

open Generated

theorem scrypt_const (P : Prims) (pw salt : Bytes) : RsIO.scrypt P pw salt SCRYPT_N SCRYPT_R SCRYPT_P 32 = P.kdf pw salt := by
  simp [RsIO.scrypt, SCRYPT_N, SCRYPT_R, SCRYPT_P, scryptN, scryptR, scryptP]

open encrypt in
theorem pass_encrypt_eq (P : Prims) (pw salt : Bytes) (ff : PassFileFormat) (s : Src) (k : Snk) (fuel : Nat)
    (hf : s.inp.length + s.script.length + 2 ≤ fuel) :
    pass_encrypt P.aead P s k pw salt ff fuel = some (passEncryptIO P pw salt s k) := by
  unfold pass_encrypt passEncryptIO writeRecord
  simp only [scrypt_const, RsIO.writeAll, RsIO.flush, show PASS_FILE_MAGIC = encPassMagic from rfl,
    show CHUNK_SIZE = chunkSize from rfl]
  rcases hw1 : Snk.writeAll (s.pos, s.nreads) _ k encPassMagic with ⟨_ | _, k1⟩
  · simp [write_err, Except.mapError]
  · simp only []
    rcases hw2 : Snk.writeAll (s.pos, s.nreads) _ k1 salt with ⟨_ | _, k2⟩
    · simp [write_err, Except.mapError]
    · simp only []
      rcases hfl : k2.flush with ⟨_ | _, k3⟩
      · simp [write_err, Except.mapError]
      · simp [Except.mapError, encrypt_chunks_eq P.aead _ _ _ s k3 fuel hf]
        exact fun h => h.symm

/-- `Res.format` is how the hand-written model classifies `DecryptError::Other("Invalid file format.")`; the translation
    does not model messages, so it sees `Res.other` there -/
def collapseFormat : Res → Res
  | .format => .other
  | r => r

theorem valid_file_format_model (h : Bytes) :
    decrypt.valid_file_format h = match validFileFormat h with
      | some true => .ok FileFormat.AsymV1
      | some false => .ok FileFormat.PassV1
      | none => .error () := by
  rw [valid_file_format_eq]
  unfold validFileFormat
  simp only [show decAsymMagic = [101, 103, 107, 16] from rfl, show decPassMagic = [101, 103, 107, 32] from rfl]
  by_cases h1 : h = [101, 103, 107, 16]
  · simp [h1]
  · by_cases h2 : h = [101, 103, 107, 32] <;> simp [h1, h2]

theorem decLoopIO_ne_format (A : Aead) (key aad : Bytes) (cs : Nat) :
    ∀ (fuel ctr : Nat) (s : Src) (k : Snk), (decLoopIO A key aad cs fuel ctr s k).1 ≠ .format := by
  intro fuel
  induction fuel with
  | zero => intro ctr s k; simp [decLoopIO]
  | succ f ih =>
    intro ctr s k
    unfold decLoopIO
    split
    · simp
    · simp only []
      split
      · simp
      · split
        · simp
        · split
          · simp
          · split
            · rename_i e s3 hp
              split at hp
              · split at hp <;> simp at hp
                · rw [← hp.1]; simp
                · rw [← hp.1]; simp
                · split at hp <;> simp at hp
                  rw [← hp.1]; simp
              · simp at hp
            · split
              · simp
              · split
                · simp
                · split
                  · simp
                  · exact ih _ _ _

theorem collapse_decryptChunksIO (A : Aead) (key aad : Bytes) (cs : Nat) (s : Src) (k : Snk) :
    collapseFormat (decryptChunksIO A key aad cs s k).1 = (decryptChunksIO A key aad cs s k).1 := by
  have h := decLoopIO_ne_format A key aad cs (s.inp.length + 1) 0 s k
  unfold decryptChunksIO
  generalize (decLoopIO A key aad cs (s.inp.length + 1) 0 s k).1 = r at h
  cases r <;> first | rfl | exact absurd rfl h

open decrypt in
theorem pass_decrypt_eq (P : Prims) (pw : Bytes) (ff : PassFileFormat) (s : Src) (k : Snk) (fuel : Nat)
    (hf : s.inp.length + 1 ≤ fuel) :
    pass_decrypt P.aead P s k pw ff fuel =
      some (collapseFormat (passDecryptIO P pw s k).1, (passDecryptIO P pw s k).2.1, (passDecryptIO P pw s k).2.2) := by
  unfold pass_decrypt passDecryptIO
  cases ff
  simp only [bne_self_eq_false, Bool.false_eq_true, if_false, Rs.Step.andThen_cont, RsIO.readExact, List.length_replicate,
    scrypt_const, show CHUNK_SIZE = chunkSize from rfl]
  rcases hr1 : Src.readExact (s.fuel 4) s 4 with ⟨_ | magic, s1⟩
  · simp [Except.mapError, dec_read_err, collapseFormat]
  · simp only [Except.mapError, valid_file_format_model]
    obtain ⟨m1, hm1, hi1, _⟩ := Src.readExact_frame _ _ _ _ _ hr1
    rcases hv : validFileFormat magic with _ | _ | _
    · simp [errors.From_FileFormatError_for_DecryptError, collapseFormat]
    · simp only []
      rcases hr2 : Src.readExact (s1.fuel 32) s1 32 with ⟨_ | salt, s2⟩
      · simp [dec_read_err, collapseFormat]
      · obtain ⟨m2, hm2, hi2, _⟩ := Src.readExact_frame _ _ _ _ _ hr2
        have hfuel : s2.inp.length + 1 ≤ fuel := by
          rw [hi2, hi1, List.length_drop, List.length_drop]; omega
        simp only [decrypt_chunks_eq P.aead _ _ _ s2 k fuel hfuel, collapse_decryptChunksIO]
        simp
        intro h; exact h.symm
    · simp [collapseFormat]

/-! ### file level: `key_encrypt`, `key_decrypt` -/

theorem hkdf_const (P : Prims) (ikm info : Bytes) : RsIO.hkdfSha256 P [] ikm info 32 = P.hkdfFile ikm info := by
  simp [RsIO.hkdfSha256]

open encrypt in
theorem key_encrypt_eq (P : Prims) (rand : Nat → Bytes) (s spk rs e epk pk : Bytes) (ff : AsymFileFormat) (src : Src) (k : Snk)
    (fuel : Nat) (hf : src.inp.length + src.script.length + 2 ≤ fuel) :
    key_encrypt P.aead P rand src k s spk rs (some e) (some epk) (some pk) ff fuel =
      some (keyEncryptIO P s spk rs e epk pk src k) := by
  unfold key_encrypt keyEncryptIO writeRecord
  simp only [RsIO.noiseEncrypt, hkdf_const, RsIO.writeAll, RsIO.flush, show PROLOGUE = encPrologue from rfl,
    show CHUNK_SIZE = chunkSize from rfl]
  rcases hn : Noise.writeMessage P encPrologue s spk rs e epk pk with err | ⟨msg, h⟩
  · simp [Except.mapError]
  · simp only [Except.mapError]
    rcases hw1 : Snk.writeAll (src.pos, src.nreads) _ k encPrologue with ⟨_ | _, k1⟩
    · simp [write_err]
    · simp only []
      rcases hw2 : Snk.writeAll (src.pos, src.nreads) _ k1 msg with ⟨_ | _, k2⟩
      · simp [write_err]
      · simp only []
        rcases hfl : k2.flush with ⟨_ | _, k3⟩
        · simp [write_err]
        · simp [encrypt_chunks_eq P.aead _ _ _ src k3 fuel hf]
          exact fun h => h.symm

/-- how the hand-written model's pair (result class, sender key on success) reads as the Rust `Result<PublicKey, DecryptError>` -/
def keyResult : Res → Option Bytes → Except Res Bytes
  | _, some spk => .ok spk
  | r, none => .error (collapseFormat r)

open decrypt in
theorem key_decrypt_eq (P : Prims) (r rpk : Bytes) (ff : AsymFileFormat) (s : Src) (k : Snk) (fuel : Nat)
    (hf : s.inp.length + 1 ≤ fuel) :
    key_decrypt P.aead P s k r rpk ff fuel =
      some (keyResult (keyDecryptIO P r rpk s k).1 (keyDecryptIO P r rpk s k).2.2.2,
        (keyDecryptIO P r rpk s k).2.1, (keyDecryptIO P r rpk s k).2.2.1) := by
  unfold key_decrypt keyDecryptIO
  cases ff
  simp only [bne_self_eq_false, Bool.false_eq_true, if_false, Rs.Step.andThen_cont, RsIO.readExact, List.length_replicate,
    hkdf_const, show CHUNK_SIZE = chunkSize from rfl, show (128 : Nat) = handshakeLen from rfl]
  rcases hr1 : Src.readExact (s.fuel 4) s 4 with ⟨_ | magic, s1⟩
  · simp [Except.mapError, dec_read_err, collapseFormat, keyResult]
  · simp only [Except.mapError, valid_file_format_model]
    obtain ⟨m1, hm1, hi1, _⟩ := Src.readExact_frame _ _ _ _ _ hr1
    rcases hv : validFileFormat magic with _ | _ | _
    · simp [errors.From_FileFormatError_for_DecryptError, collapseFormat, keyResult]
    · simp [collapseFormat, keyResult]
    · simp only []
      rcases hr2 : Src.readExact (s1.fuel handshakeLen) s1 handshakeLen with ⟨_ | msg, s2⟩
      · simp [dec_read_err, collapseFormat, keyResult]
      · obtain ⟨m2, hm2, hi2, _⟩ := Src.readExact_frame _ _ _ _ _ hr2
        have hfuel : s2.inp.length + 1 ≤ fuel := by
          rw [hi2, hi1, List.length_drop, List.length_drop]; omega
        simp only [RsIO.noiseDecrypt]
        rcases hnr : Noise.readMessage P magic r rpk msg with err | ⟨pk, spk, h⟩
        · simp [collapseFormat, keyResult]
        · by_cases hl : pk.length ≠ 32
          · simp [hl, collapseFormat, keyResult]
          · simp only [hl, if_false, decrypt_chunks_eq P.aead _ _ _ s2 k fuel hfuel]
            have hc := collapse_decryptChunksIO P.aead (P.hkdfFile pk h) [] chunkSize s2 k
            by_cases hok : (decryptChunksIO P.aead (P.hkdfFile pk h) [] chunkSize s2 k).1 = Res.ok
            · simp [hok, keyResult]
            · simp [hok, keyResult, hc]
end StreamSrc
end Kestrel
