/-
  Umbrella module: the helper lemmas for KestrelProps/StreamSrc*.lean live in KestrelProofs/StreamSrcCommon.lean (shared),
  StreamSrcEnc.lean (`encrypt.rs`) and StreamSrcDec.lean (`decrypt.rs`); this module only imports them.
-/
import KestrelProofs.StreamSrcEnc
import KestrelProofs.StreamSrcDec
