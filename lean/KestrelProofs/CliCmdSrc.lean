/-
  Helper lemmas for KestrelProps/CliCmdSrc.lean: the Lean code *generated from* `src/cli/src/commands.rs`
  (`KestrelModel/GeneratedCli.lean`, names `Kestrel.CliSrc.commands.*`, produced by tools/rs2lean_cli.py) against the
  hand-written model of the commands `Kestrel.Cli` (KestrelModel/Cli.lean: `askPass`, `openKeyring`, `runChangePass`,
  `runExtractPub`).  Facts about the functions of keyring.rs the commands call come from KestrelProofs/KeyringSrc.lean.

  Nothing in this file restates generated code: every lemma about a generated function starts with `unfold`.
-/
import KestrelProofs.CliSrc
import KestrelProofs.KeyringSrc
import KestrelProofs.Cli
set_option linter.unusedSimpArgs false
namespace Kestrel
namespace CliSrc
open RsStr RsCli Cli

/-- the password a result of `ask_pass` … stands for: the UTF-8 bytes of the string -/
def pwOf (r : Except AnyErr commands.ZeroedString) : Option Bytes := r.toOption.map fun z => Keyring.utf8 z._0

theorem str_lit (x : String) : str x = x.toList := rfl

/-- reading a password from an environment variable, as the model does -/
theorem read_env_pass_spec (sys : Sys) :
    (commands.read_env_pass sys).1 = sys ∧ pwOf (commands.read_env_pass sys).2 = (askPass sys.world true).toOption := by
  unfold commands.read_env_pass env_var askPass
  unfold_generated_consts
  rw [str_lit]
  cases h : sys.world.getenv "KESTREL_PASSWORD".toList with
  | none => exact ⟨rfl, rfl⟩
  | some p => exact ⟨rfl, rfl⟩

theorem read_env_new_pass_spec (sys : Sys) :
    (commands.read_env_new_pass sys).1 = sys ∧
    pwOf (commands.read_env_new_pass sys).2 = (askPass sys.world true "KESTREL_NEW_PASSWORD").toOption := by
  unfold commands.read_env_new_pass env_var askPass
  unfold_generated_consts
  rw [str_lit]
  cases h : sys.world.getenv "KESTREL_NEW_PASSWORD".toList with
  | none => exact ⟨rfl, rfl⟩
  | some p => exact ⟨rfl, rfl⟩

/-- without a terminal a prompt fails and changes nothing -/
theorem ask_pass_false (sys : Sys) (prompt : Str) :
    commands.ask_pass sys prompt false = (sys, .error (.prompt .IOError)) := rfl

theorem ask_pass_true (sys : Sys) (prompt : Str) : commands.ask_pass sys prompt true = commands.read_env_pass sys := by
  unfold commands.ask_pass
  simp only [if_true, bind_ret, run_ret]

theorem ask_pass_spec (sys : Sys) (prompt : Str) (e : Bool) :
    (commands.ask_pass sys prompt e).1 = sys ∧ pwOf (commands.ask_pass sys prompt e).2 = (askPass sys.world e).toOption := by
  cases e with
  | true => rw [ask_pass_true]; exact read_env_pass_spec sys
  | false => rw [ask_pass_false]; exact ⟨rfl, rfl⟩

/-- the confirmation loop without a terminal: the first prompt fails (needs one round of the loop) -/
theorem confirm_loop_eq (sys : Sys) (prompt : Str) (hf : 1 ≤ sys.fuel) :
    commands.confirm_loop sys prompt = (sys, .error (.prompt .IOError)) := by
  unfold commands.confirm_loop
  obtain ⟨n, hn⟩ : ∃ n, sys.fuel = n + 1 := ⟨sys.fuel - 1, by omega⟩
  simp only [RsCli.fuel, hn, RsCli.loop, ask_pass_false, propagate_error, bind_ret, run_ret]


theorem confirm_password_spec (sys : Sys) (prompt : Str) (e : Bool) (hf : 1 ≤ sys.fuel) :
    (commands.confirm_password sys prompt e).1 = sys ∧
    pwOf (commands.confirm_password sys prompt e).2 = (askPass sys.world e).toOption := by
  unfold commands.confirm_password
  cases e with
  | true => simp only [if_true, bind_ret, run_ret]; exact read_env_pass_spec sys
  | false => simp only [Bool.false_eq_true, if_false, bind_next, confirm_loop_eq sys prompt hf, propagate_error, bind_ret, run_ret]; refine ⟨?_, ?_⟩ <;> first | rfl | trivial

theorem confirm_new_pass_spec (sys : Sys) (prompt : Str) (e : Bool) (hf : 1 ≤ sys.fuel) :
    (commands.confirm_new_pass sys prompt e).1 = sys ∧
    pwOf (commands.confirm_new_pass sys prompt e).2 = (askPass sys.world e "KESTREL_NEW_PASSWORD").toOption := by
  unfold commands.confirm_new_pass
  cases e with
  | true => simp only [if_true, bind_ret, run_ret]; exact read_env_new_pass_spec sys
  | false => simp only [Bool.false_eq_true, if_false, bind_next, confirm_loop_eq sys prompt hf, propagate_error, bind_ret, run_ret]; refine ⟨?_, ?_⟩ <;> first | rfl | trivial

/-- a result of one of the password functions, taken apart -/
theorem pw_cases {sys : Sys} {r : Sys × Except AnyErr commands.ZeroedString} {m : Except Err Bytes}
    (h : r.1 = sys ∧ pwOf r.2 = m.toOption) :
    (∃ e c, r = (sys, .error e) ∧ m = .error c) ∨ (∃ z, r = (sys, .ok z) ∧ m = .ok (Keyring.utf8 z._0)) := by
  obtain ⟨s, r2⟩ := r
  obtain ⟨h1, h2⟩ := h
  cases h1
  cases r2 with
  | error e =>
    cases m with
    | error c => exact Or.inl ⟨e, c, rfl, rfl⟩
    | ok b => cases h2
  | ok z =>
    cases m with
    | error c => cases h2
    | ok b =>
      have : Keyring.utf8 z._0 = b := by simpa [pwOf, Except.toOption] using h2
      exact Or.inr ⟨z, rfl, by rw [this]⟩


/-- a translated command agrees with an outcome of the model: the same final files / environment / standard input, the model's
    output appended to standard output, `Ok(())` exactly with exit code 0 and `Err(_)` exactly with exit code 1; command
    line, exit code so far, primitives and randomness untouched, no `loop` out of budget -/
def Agrees (sys : Sys) (r : Sys × Except AnyErr Unit) (o : Outcome) : Prop :=
  r.1.world = o.world ∧ r.1.stdout = sys.stdout ++ o.stdout ∧
  ((r.2 = .ok () ∧ o.exit = 0) ∨ ((∃ e, r.2 = .error e) ∧ o.exit = 1)) ∧
  r.1.args = sys.args ∧ r.1.exit = sys.exit ∧ r.1.outOfFuel = sys.outOfFuel ∧ r.1.prims = sys.prims ∧ r.1.rnd = sys.rnd

theorem agrees_fail (sys : Sys) (e : AnyErr) (c : Err) : Agrees sys (sys, .error e) (fail sys.world c) :=
  ⟨rfl, (List.append_nil _).symm, Or.inr ⟨⟨e, rfl⟩, rfl⟩, rfl, rfl, rfl, rfl, rfl⟩

/-- `EncodedSk::try_from` and `unlock_private_key` on a string, in the model's terms -/
theorem encoded_sk_cases (k : Str) :
    (Keyring.encodedSkOk k = true ∧ KeyringSrc.EncodedSk.try_from k = .ok ⟨k⟩ ∧
      ∀ pw, KeyringSrc.Keyring.unlock_private_key ⟨k⟩ pw =
        match Keyring.unlockPrivateKey k pw with
        | .ok sk => .ok ⟨sk⟩
        | .error err => .error (KeyringSrc.errClass err)) ∨
    (Keyring.encodedSkOk k = false ∧ ∃ m, KeyringSrc.EncodedSk.try_from k = .error m) := by
  have hm := KeyringSrc.sk_try_from_map_err k ()
  cases hk : Keyring.encodedSkOk k with
  | false =>
    rw [hk] at hm
    cases ht : KeyringSrc.EncodedSk.try_from k with
    | ok x => rw [ht] at hm; cases hm
    | error m => exact Or.inr ⟨rfl, m, rfl⟩
  | true =>
    rw [hk] at hm
    cases ht : KeyringSrc.EncodedSk.try_from k with
    | error m => rw [ht] at hm; cases hm
    | ok x =>
      rw [ht] at hm
      have hx : x = ⟨k⟩ := by simpa [RsStr.map_err] using hm
      refine Or.inl ⟨rfl, by rw [hx], fun pw => ?_⟩
      unfold Keyring.encodedSkOk at hk
      cases hd : B64.decode (Keyring.utf8 k) with
      | none => rw [hd] at hk; cases hk
      | some b =>
        rw [hd] at hk
        have hl : b.length = 84 := by simpa [Generated.privateKeyCtLen] using hk
        exact KeyringSrc.unlock_private_key_eq k pw b hd hl

theorem change_pass_spec (sys : Sys) (k : Str) (e : Bool) (hf : 1 ≤ sys.fuel) (hd : sys.draws = 0) :
    Agrees sys (commands.change_pass sys k e) (runChangePass sys.rnd sys.world k e) := by
  unfold commands.change_pass runChangePass
  rcases pw_cases (ask_pass_spec sys "Old password: ".toList e) with ⟨err, c, h1, h2⟩ | ⟨old, h1, h2⟩
  · simp only [h1, h2, propagate_error, bind_ret, run_ret]; exact agrees_fail sys _ _
  simp only [h1, h2, propagate_ok, bind_next]
  rcases pw_cases (confirm_new_pass_spec sys "New password: ".toList e hf) with ⟨err, c, h3, h4⟩ | ⟨new, h3, h4⟩
  · simp only [h3, h4, propagate_error, bind_ret, run_ret]; exact agrees_fail sys _ _
  simp only [h3, h4, propagate_ok, bind_next]
  rcases encoded_sk_cases k with ⟨hk, ht, hu⟩ | ⟨hk, m, ht⟩
  · rw [ht]
    simp only [RsStr.map_err, propagate_ok, bind_next]
    rw [hk]
    simp only [Bool.not_true, Bool.false_eq_true, if_false]
    rw [show str_as_bytes old.deref = Keyring.utf8 old._0 from rfl, hu]
    cases hul : Keyring.unlockPrivateKey k (Keyring.utf8 old._0) with
    | error c => simp only [propagate_error, bind_ret, run_ret]; exact agrees_fail sys _ _
    | ok sk =>
      simp only [propagate_ok, bind_next, run_next, isatty, secure_random, hd, if_true, Bool.false_eq_true, if_false,
        vec_try_into_array, RsStr.unwrap_res, print_stdout, KeyringSrc.EncodedSk.as_str, KeyringSrc.lock_private_key_eq]
      refine ⟨rfl, ?_, Or.inl ⟨rfl, rfl⟩, rfl, rfl, rfl, rfl, rfl⟩
      show sys.stdout ++ Keyring.utf8 (_ ++ _ ++ _) = sys.stdout ++ Keyring.utf8 (_ ++ _ ++ _)
      rfl
  · simp only [hk, ht, RsStr.map_err, propagate_error, bind_ret, run_ret, Bool.not_false, if_true]
    exact agrees_fail sys _ _


theorem extract_pub_spec (sys : Sys) (k : Str) (e : Bool)
    (hpub : ∀ sk pk, sys.prims.pub sk = some pk → pk.length = 32) :
    Agrees sys (commands.extract_pub sys k e) (runExtractPub sys.prims sys.world k e) := by
  unfold commands.extract_pub runExtractPub
  rcases pw_cases (ask_pass_spec sys "Password: ".toList e) with ⟨err, c, h1, h2⟩ | ⟨pw, h1, h2⟩
  · simp only [h1, h2, propagate_error, bind_ret, run_ret]; exact agrees_fail sys _ _
  simp only [h1, h2, propagate_ok, bind_next]
  rcases encoded_sk_cases k with ⟨hk, ht, hu⟩ | ⟨hk, m, ht⟩
  · rw [ht]
    simp only [RsStr.map_err, propagate_ok, bind_next]
    rw [hk]
    simp only [Bool.not_true, Bool.false_eq_true, if_false]
    rw [show str_as_bytes pw.deref = Keyring.utf8 pw._0 from rfl, hu]
    cases hul : Keyring.unlockPrivateKey k (Keyring.utf8 pw._0) with
    | error c => simp only [propagate_error, bind_ret, run_ret]; exact agrees_fail sys _ _
    | ok sk =>
      simp only [propagate_ok, bind_next, PrivateKey.to_public]
      cases hp : sys.prims.pub sk with
      | none => simp only [propagate_error, bind_ret, run_ret]; exact agrees_fail sys _ _
      | some pk =>
        have e32 := KeyringSrc.encode_public_key_eq ⟨pk⟩ (hpub sk pk hp)
        simp only [propagate_ok, bind_next, run_next, print_stdout, KeyringSrc.EncodedPk.as_str, e32]
        refine ⟨rfl, ?_, Or.inl ⟨rfl, rfl⟩, rfl, rfl, rfl, rfl, rfl⟩
        show sys.stdout ++ Keyring.utf8 (_ ++ _ ++ _) = sys.stdout ++ Keyring.utf8 (_ ++ _ ++ _)
        rfl
  · simp only [hk, ht, RsStr.map_err, propagate_error, bind_ret, run_ret, Bool.not_false, if_true]
    exact agrees_fail sys _ _

/-- the keys a result of `open_keyring` stands for -/
def keysOf (r : Except AnyErr KeyringSrc.Keyring) : Option (List Keyring.Key) := r.toOption.map KeyringSrc.viewKeys

theorem keysOf_new (sys : Sys) (text : Str) :
    keysOf (RsStr.run ((Flow.propagate (KeyringSrc.Keyring.new text) fun err' => (sys, Except.error (AnyErr.keyring err'))).bind
      fun v => (Flow.next (sys, Except.ok v) : Flow _ Empty _))).2 =
    (match Keyring.parse text with
      | none => (.error .keyringParse : Except Err (List Keyring.Key))
      | some ks => .ok ks).toOption := by
  have h := KeyringSrc.new_sim text
  cases hp : Keyring.parse text with
  | none => rw [hp] at h; rw [h]; rfl
  | some ks => rw [hp] at h; obtain ⟨kr, e, hk⟩ := h; rw [e]; exact congrArg some hk

theorem fst_new (sys : Sys) (text : Str) :
    (RsStr.run ((Flow.propagate (KeyringSrc.Keyring.new text) fun err' => (sys, Except.error (AnyErr.keyring err'))).bind
      fun v => (Flow.next (sys, Except.ok v) : Flow _ Empty _))).1 = sys := by
  cases KeyringSrc.Keyring.new text <;> rfl

/-- the part of `open_keyring` after the path is known: read the file, decode it, parse it -/
local macro "open_keyring_tail" p:ident : tactic => `(tactic| (
  simp only [bind_next, fs_read, string_from_utf8]
  cases hf : (World.file (Sys.world _) $p) with
  | none => exact ⟨rfl, rfl⟩
  | some data =>
    simp only [RsStr.map_err, propagate_ok, bind_next]
    cases hu : utf8Decode data with
    | none => exact ⟨rfl, rfl⟩
    | some text =>
      simp only [propagate_ok, bind_next]
      exact ⟨fst_new _ text, keysOf_new _ text⟩))

theorem open_keyring_spec (sys : Sys) (loc : Option Str) :
    (commands.open_keyring sys loc).1 = sys ∧ keysOf (commands.open_keyring sys loc).2 = (openKeyring sys.world loc).toOption := by
  unfold commands.open_keyring openKeyring env_var
  unfold_generated_consts
  rw [str_lit]
  rcases loc with _ | p
  · cases hg : sys.world.getenv "KESTREL_KEYRING".toList with
    | none => exact ⟨rfl, rfl⟩
    | some p => open_keyring_tail p
  · open_keyring_tail p

theorem extract_filename_unicode (s : Str) : commands.extract_filename (some (.unicode s)) = s := rfl

end CliSrc
end Kestrel
