/-
  C09 (guarded model): no input reaches a panic site, and the guarded functions equal the plain model functions.

  Each theorem has the form  `xxxG args = .val (xxx args)`.  The content is the guard reasoning: every partial
  operation of `KestrelModel/Guarded.lean` is shown to be applied inside its domain, using only the `if … return Err`
  guards that precede it in the Rust code, the stated caller contracts (key lengths fixed by the `PrivateKey` /
  `PublicKey` / `PayloadKey` types) and output-length laws of the primitives (`Prims.Lawful`, SHA-256 = 32 bytes).
-/
import KestrelModel.Guarded
import KestrelProofs.Aead
import KestrelProofs.Chunks
import KestrelProofs.Noise
import KestrelProofs.File
import KestrelProofs.Prims
import KestrelProofs.LockedKey
namespace Kestrel.Guarded
open Kestrel Kestrel.Generated

@[simp] theorem bind_val {α β : Type} (a : α) (f : α → Outcome β) : (Outcome.val a >>= f) = f a := rfl
@[simp] theorem bind_crash {α β : Type} (s : String) (f : α → Outcome β) : (Outcome.crash s >>= f) = .crash s := rfl
@[simp] theorem pure_eq {α : Type} (a : α) : (pure a : Outcome α) = .val a := rfl

theorem sliceTo_val (site : String) (b : Bytes) (n : Nat) (h : n ≤ b.length) : sliceTo site b n = .val (b.take n) := by
  simp [sliceTo, Nat.not_lt.mpr h]
theorem sliceFrom_val (site : String) (b : Bytes) (n : Nat) (h : n ≤ b.length) : sliceFrom site b n = .val (b.drop n) := by
  simp [sliceFrom, Nat.not_lt.mpr h]
theorem slice_val (site : String) (b : Bytes) (i j : Nat) (hij : i ≤ j) (hj : j ≤ b.length) :
    slice site b i j = .val ((b.drop i).take (j - i)) := by
  have : ¬ (i > j ∨ j > b.length) := by omega
  simp [slice, this]
theorem toArray_val (site : String) (b : Bytes) (n : Nat) (h : b.length = n) : toArray site b n = .val b := by
  simp [toArray, h]
theorem copyFromSlice_val (site : String) (n : Nat) (src : Bytes) (h : n = src.length) : copyFromSlice site n src = .val () := by
  simp [copyFromSlice, h]
theorem subUsize_val (site : String) (a b : Nat) (h : b ≤ a) : subUsize site a b = .val (a - b) := by
  simp [subUsize, Nat.not_lt.mpr h]
theorem assertThat_val (site : String) (c : Bool) (h : c = true) : assertThat site c = .val () := by
  simp [assertThat, h]
theorem tryIntoUsize_val (site : String) (v : Nat) (h : v < 2^32) : tryIntoUsize site v = .val v := by
  have : v < usizeBound := h
  simp [tryIntoUsize, this]
@[simp] theorem expectSome_some {α : Type} (site : String) (a : α) : expectSome site (some a) = .val a := rfl

/-! ### AEAD -/

theorem aeadOpenG_total (key nonce ad c : Bytes) (hk : key.length = 32) (hn : nonce.length = 12) :
    aeadOpenG key nonce ad c = .val (aeadOpen key nonce ad c) := by
  unfold aeadOpenG
  rw [assertThat_val _ _ (by simp [hn]), assertThat_val _ _ (by simp [hk])]
  simp only [bind_val]
  have ht : tagSize = 16 := rfl
  by_cases h : c.length < tagSize
  · rw [if_pos h, aeadOpen_short _ _ _ _ h]
  · rw [if_neg h, subUsize_val _ _ _ (by omega)]; rfl

theorem chapolyNoiseDecG_total (key : Bytes) (n : Nat) (ad c : Bytes) (hk : key.length = 32) :
    chapolyNoiseDecG key n ad c = .val (chapolyNoise.dec key n ad c) := by
  unfold chapolyNoiseDecG
  rw [assertThat_val _ _ (by simp [hk])]
  have hz : (zeros 12).length = 12 := List.length_replicate ..
  simp only [bind_val, nonceOffset]
  rw [sliceFrom_val _ _ _ (by rw [hz]; omega)]
  simp only [bind_val]
  rw [copyFromSlice_val _ _ _ (by simp [hz, natLE_length])]
  simp only [bind_val]
  have hnn : List.take 4 (zeros 12) ++ natLE 8 n = noiseNonce n := rfl
  rw [hnn, aeadOpenG_total _ _ _ _ hk (noiseNonce_length n)]
  rfl

/-! ### chunk stream -/

theorem beVal_lt (b : Bytes) : beVal b < 256 ^ b.length := by
  induction b with
  | nil => simp [beVal]
  | cons x xs ih =>
    have hx : x.toNat < 256 := x.toNat_lt
    simp only [beVal, List.length_cons, Nat.pow_succ]
    have : x.toNat * 256 ^ xs.length ≤ 255 * 256 ^ xs.length := Nat.mul_le_mul_right _ (by omega)
    omega

/-- the guard reasoning of `decrypt_chunks`: with `len ≤ cs` established by the ChunkLen check,
    `buffer[..len+16]` is inside the `cs+16`-byte buffer; the header sub-slices are inside the 16-byte header;
    the three `auth_data` destinations have exactly the lengths of their sources. -/
theorem decLoopG_total (A : Aead) (D : AeadDecG) (key aad : Bytes) (cs : Nat) (hcs : cs < 2^32)
    (hD : ∀ n ad c, D key n ad c = .val (A.dec key n ad c)) :
    ∀ (fuel ctr : Nat) (buf adBuf inp : Bytes), buf.length = cs + 16 → adBuf.length = aad.length + 8 →
      decLoopG D key aad cs fuel ctr buf adBuf inp = .val (decLoop A key aad cs fuel ctr inp) := by
  intro fuel
  induction fuel with
  | zero => intro ctr buf adBuf inp _ _; rfl
  | succ f ih =>
    intro ctr buf adBuf inp hbuf had
    unfold decLoopG decLoop
    by_cases h16 : inp.length < 16
    · rw [if_pos h16, if_pos h16]
    rw [if_neg h16, if_neg h16]
    have hhdr : (inp.take 16).length = 16 := by rw [List.length_take]; omega
    simp only [decHdrLast, decHdrLen, tagSize]
    rw [slice_val _ _ _ _ (by omega) (by omega)]
    simp only [bind_val]
    rw [toArray_val _ _ _ (by simp only [List.length_take, List.length_drop, hhdr]; omega)]
    simp only [bind_val]
    rw [sliceFrom_val _ _ _ (by omega)]
    simp only [bind_val]
    have hlenB : ((inp.take 16).drop 12).length = 4 := by simp only [List.length_drop, hhdr]
    rw [toArray_val _ _ _ hlenB]
    simp only [bind_val]
    generalize hL : (List.take 16 inp).drop 12 = lenB at *
    generalize hF : ((List.take 16 inp).drop 8).take (12 - 8) = lastB
    have hlastB : lastB.length = 4 := by
      rw [← hF]; simp only [List.length_take, List.length_drop, hhdr]; omega
    by_cases hgt : beVal lenB > cs
    · rw [if_pos hgt, if_pos hgt]
    rw [if_neg hgt, if_neg hgt]
    rw [tryIntoUsize_val _ _ (by omega)]
    simp only [bind_val]
    rw [sliceTo_val _ _ _ (by omega)]
    simp only [bind_val]
    have hdst : (buf.take (beVal lenB + 16)).length = beVal lenB + 16 := by rw [List.length_take]; omega
    rw [hdst]
    by_cases hrd : (inp.drop 16).length < beVal lenB + 16
    · rw [if_pos hrd, if_pos hrd]
    rw [if_neg hrd, if_neg hrd]
    rw [sliceTo_val _ _ _ (by omega)]
    simp only [bind_val]
    rw [copyFromSlice_val _ _ _ (by rw [List.length_take]; omega)]
    simp only [bind_val]
    rw [slice_val _ _ _ _ (by omega) (by omega)]
    simp only [bind_val]
    rw [copyFromSlice_val _ _ _ (by simp only [List.length_take, List.length_drop]; omega)]
    simp only [bind_val]
    rw [sliceFrom_val _ _ _ (by omega)]
    simp only [bind_val]
    rw [copyFromSlice_val _ _ _ (by simp only [List.length_drop]; omega)]
    simp only [bind_val]
    have hbody : ((inp.drop 16).take (beVal lenB + 16)).length = beVal lenB + 16 := by
      rw [List.length_take]; omega
    rw [sliceTo_val _ _ _ (by simp only [List.length_append, hbody]; omega)]
    simp only [bind_val]
    rw [List.take_left' hbody, hD]
    simp only [bind_val]
    cases A.dec key ctr (aad ++ lastB ++ lenB) ((inp.drop 16).take (beVal lenB + 16)) with
    | none => rfl
    | some pt =>
      rw [show lastFlagValue = 1 from rfl]
      simp only []
      by_cases hl : (beVal lastB == 1) = true
      · rw [if_pos hl, if_pos hl]
        by_cases hr : ((inp.drop 16).drop (beVal lenB + 16)).length ≠ 0
        · rw [if_pos hr, if_pos hr]
        · rw [if_neg hr, if_neg hr]
      · rw [if_neg hl, if_neg hl]
        rw [ih (ctr+1) _ _ _ (by simp only [List.length_append, hbody, List.length_drop]; omega)
          (by simp only [List.length_append, hlastB, hlenB])]
        rfl

theorem decryptChunksG_total (A : Aead) (D : AeadDecG) (key aad : Bytes) (cs : Nat) (hcs : cs < 2^32)
    (hD : ∀ n ad c, D key n ad c = .val (A.dec key n ad c)) (inp : Bytes) :
    decryptChunksG D key aad cs inp = .val (decryptChunks A key aad cs inp) := by
  unfold decryptChunksG decryptChunks
  rw [tryIntoUsize_val _ _ hcs]
  simp only [bind_val]
  exact decLoopG_total A D key aad cs hcs hD _ _ _ _ _ (List.length_replicate ..) (List.length_replicate ..)

/-! ### Noise -/
open Noise

/-- what the guarded AEAD owes the abstract one: under the key-length contract it never crashes and agrees -/
def Refines (D : AeadDecG) (A : Aead) : Prop :=
  ∀ k : Bytes, k.length = 32 → ∀ n ad c, D k n ad c = .val (A.dec k n ad c)

theorem chapolyNoiseDecG_refines : Refines chapolyNoiseDecG chapolyNoise :=
  fun k hk n ad c => chapolyNoiseDecG_total k n ad c hk

theorem keyTryFrom_32 (b : Bytes) (h : b.length = 32) : keyTryFrom b = some b := by simp [keyTryFrom, h]

theorem mixHashG_val (P : Prims) (hH : ∀ m, (P.hash m).length = 32) (s : Sym) (d : Bytes) :
    mixHashG P s d = .val (s.mixHash P d) := by
  unfold mixHashG
  rw [toArray_val _ _ hashLen (hH _)]
  rfl

theorem mixKeyG_val (P : Prims) (hP : P.Lawful) (s : Sym) (ikm : Bytes) :
    mixKeyG P s ikm = .val (s.mixKey P ikm) := by
  unfold mixKeyG Sym.mixKey payloadKeyNewG
  have h := hP.hkdf2_len s.ck ikm
  generalize P.hkdf2 s.ck ikm = pr at *
  obtain ⟨ck, tk⟩ := pr
  simp only [] at h ⊢
  rw [toArray_val _ _ _ h.1, bind_val, toArray_val _ _ _ h.2, bind_val]

theorem symNewG_val (P : Prims) : symNewG P protocolName = .val (Sym.init P protocolName) := by
  rfl

theorem dhG_val (P : Prims) (k u : Bytes) (hk : k.length = 32) (hu : u.length = 32) : dhG P k u = .val (P.dh k u) := by
  unfold dhG
  rw [toArray_val _ _ _ hk, bind_val, toArray_val _ _ _ hu, bind_val]

theorem decryptAndHashG_val (P : Prims) (D : AeadDecG) (hD : Refines D P.aead) (hH : ∀ m, (P.hash m).length = 32)
    (s : Sym) (ct k : Bytes) (hk : s.k = some k) (hkl : k.length = 32) (hn : s.n = 0) :
    decryptAndHashG P D s ct = .val (s.decryptAndHash P ct) := by
  unfold decryptAndHashG decryptWithAdG Sym.decryptAndHash
  rw [hk, hn]
  simp only [expectSome_some, bind_val, Option.getD_some, hD k hkl]
  cases P.aead.dec k 0 s.h ct with
  | none => rfl
  | some pt =>
    simp only []
    rw [assertThat_val _ _ (by decide)]
    simp only [bind_val, mixHashG_val P hH, Sym.mixHash, hk]

/-- the responder's `HandshakeState` after `init_x(false, prologue, r, rpk, None, None, None)` -/
def hs0 (P : Prims) (pro r rpk : Bytes) : HS :=
  { sym := initR P pro rpk, s := some (r, rpk), e := none, rs := none, re := none, initiator := false,
    patterns := [tokenPattern] }

theorem initXG_val (P : Prims) (hH : ∀ m, (P.hash m).length = 32) (pro r rpk : Bytes) :
    initXG P false pro r rpk none none none = .val (hs0 P pro r rpk) := by
  unfold initXG
  rw [symNewG_val]
  simp only [bind_val, mixHashG_val P hH, Option.isSome_none, Bool.and_self, Bool.false_eq_true, if_false, pure_eq]
  rfl

theorem readToken_E (P : Prims) (D : AeadDecG) (hH : ∀ m, (P.hash m).length = 32) (msg : Bytes) (hs : HS) (idx : Nat)
    (h : idx + 32 ≤ msg.length) :
    readTokenG P D msg .E hs idx =
      .val (.ok ({ hs with re := some ((msg.drop idx).take 32), sym := hs.sym.mixHash P ((msg.drop idx).take 32) }, idx + 32)) := by
  unfold readTokenG
  simp only [dhLen]
  rw [slice_val _ _ _ _ (by omega) h]
  have e : idx + 32 - idx = 32 := by omega
  rw [e]
  simp only [bind_val]
  rw [keyTryFrom_32 _ (by rw [List.length_take, List.length_drop]; omega)]
  simp only [mixHashG_val P hH, bind_val]

theorem readToken_DH (P : Prims) (hP : P.Lawful) (sym : Sym) (r u : Bytes) (hr : r.length = 32) (hu : u.length = 32) :
    (do let d ← dhG P r u
        match d with
        | none => Outcome.val (Except.error Err.dh)
        | some ss => do
          let sym' ← mixKeyG P sym ss
          Outcome.val (Except.ok sym')) =
      .val (match P.dh r u with
            | none => .error .dh
            | some ss => .ok (sym.mixKey P ss)) := by
  rw [dhG_val P r u hr hu, bind_val]
  cases P.dh r u with
  | none => rfl
  | some ss => simp only [mixKeyG_val P hP, bind_val]

theorem mixKey_k (P : Prims) (s : Sym) (ikm : Bytes) : (s.mixKey P ikm).k = some (P.hkdf2 s.ck ikm).2 := rfl
theorem mixKey_n (P : Prims) (s : Sym) (ikm : Bytes) : (s.mixKey P ikm).n = 0 := rfl

theorem readToken_ES (P : Prims) (D : AeadDecG) (hP : P.Lawful) (msg : Bytes) (hs : HS) (idx : Nat) (r spk re : Bytes)
    (hs1 : hs.s = some (r, spk)) (hs2 : hs.re = some re) (hr : r.length = 32) (hre : re.length = 32) :
    readTokenG P D msg .ES hs idx =
      .val (match P.dh r re with
            | none => .error .dh
            | some ss => .ok ({ hs with sym := hs.sym.mixKey P ss }, idx)) := by
  unfold readTokenG
  simp only [hs1, hs2, expectSome_some, bind_val, dhG_val P r re hr hre]
  cases P.dh r re with
  | none => rfl
  | some ss => simp only [mixKeyG_val P hP, bind_val]

theorem readToken_SS (P : Prims) (D : AeadDecG) (hP : P.Lawful) (msg : Bytes) (hs : HS) (idx : Nat) (r spk rs : Bytes)
    (hs1 : hs.s = some (r, spk)) (hs2 : hs.rs = some rs) (hr : r.length = 32) (hrs : rs.length = 32) :
    readTokenG P D msg .SS hs idx =
      .val (match P.dh r rs with
            | none => .error .dh
            | some ss => .ok ({ hs with sym := hs.sym.mixKey P ss }, idx)) := by
  unfold readTokenG
  simp only [hs1, hs2, expectSome_some, bind_val, dhG_val P r rs hr hrs]
  cases P.dh r rs with
  | none => rfl
  | some ss => simp only [mixKeyG_val P hP, bind_val]

theorem readToken_S (P : Prims) (D : AeadDecG) (hD : Refines D P.aead) (hH : ∀ m, (P.hash m).length = 32)
    (msg : Bytes) (hs : HS) (idx : Nat) (k : Bytes)
    (hk : hs.sym.k = some k) (hkl : k.length = 32) (hn : hs.sym.n = 0) (h : idx + 48 ≤ msg.length) :
    readTokenG P D msg .S hs idx =
      .val (match hs.sym.decryptAndHash P ((msg.drop idx).take 48) with
            | none => .error .decrypt
            | some (rsB, sym) =>
              if rsB.length ≠ 32 then .error .other else .ok ({ hs with rs := some rsB, sym := sym }, idx + 48)) := by
  unfold readTokenG
  simp only [hk, Option.isSome_some, if_true, dhLen]
  rw [slice_val _ _ _ _ (by omega) (by omega)]
  have e : idx + (32 + 16) - idx = 48 := by omega
  rw [e]
  simp only [bind_val, decryptAndHashG_val P D hD hH hs.sym _ k hk hkl hn]
  cases hs.sym.decryptAndHash P ((msg.drop idx).take 48) with
  | none => rfl
  | some pr =>
    obtain ⟨rsB, sym⟩ := pr
    simp only [keyTryFrom]
    by_cases hl : rsB.length ≠ 32
    · rw [if_pos hl, if_pos hl]
    · rw [if_neg hl, if_neg hl]

theorem noiseDecryptG_total (P : Prims) (D : AeadDecG) (hP : P.Lawful) (hH : ∀ m, (P.hash m).length = 32)
    (hD : Refines D P.aead) (pro r rpk msg : Bytes) (hr : r.length = 32) :
    noiseDecryptG P D pro r rpk msg = .val (noiseDecrypt P pro r rpk msg) := by
  unfold noiseDecryptG noiseDecrypt
  rw [initXG_val P hH]
  simp only [bind_val]
  unfold readMessageG readMessage
  simp only [hs0, List.head?, expectSome_some, bind_val, List.tail]
  by_cases hlen : msg.length < 96 ∨ msg.length > 65535
  · rw [if_pos hlen, if_pos hlen]; rfl
  rw [if_neg hlen, if_neg hlen]
  have h96 : 96 ≤ msg.length := by omega
  simp only [tokenPattern, readTokensG]
  rw [readToken_E P D hH msg _ 0 (by omega)]
  simp only [bind_val, List.drop_zero, Nat.zero_add]
  have hre : (msg.take 32).length = 32 := by rw [List.length_take]; omega
  rw [readToken_ES P D hP msg _ 32 r rpk (msg.take 32) rfl rfl hr hre]
  simp only [bind_val]
  cases P.dh r (msg.take 32) with
  | none => rfl
  | some d1 =>
    simp only []
    rw [readToken_S P D hD hH msg _ 32 _ (mixKey_k P _ d1) (hP.hkdf2_len _ _).2 rfl (by omega)]
    simp only [bind_val]
    cases Sym.decryptAndHash P (Sym.mixKey P (Sym.mixHash P (initR P pro rpk) (List.take 32 msg)) d1)
        (List.take 48 (List.drop 32 msg)) with
    | none => rfl
    | some pr =>
      obtain ⟨rs, st⟩ := pr
      simp only []
      by_cases hl : rs.length ≠ 32
      · rw [if_pos hl, if_pos hl]; rfl
      rw [if_neg hl, if_neg hl]
      have hrs : rs.length = 32 := by omega
      simp only []
      rw [readToken_SS P D hP msg _ _ r rpk rs rfl rfl hr hrs]
      cases P.dh r rs with
      | none => rfl
      | some d2 =>
        simp only [bind_val]
        rw [sliceFrom_val _ _ _ (by omega)]
        simp only [bind_val]
        rw [decryptAndHashG_val P D hD hH _ _ _ (mixKey_k P _ d2) (hP.hkdf2_len _ _).2 rfl]
        simp only [bind_val]
        rw [show (32 + 48 : Nat) = 80 from rfl]
        cases Sym.decryptAndHash P (Sym.mixKey P st d2) (List.drop 80 msg) with
        | none => rfl
        | some pr =>
          obtain ⟨payload, st'⟩ := pr
          simp only [payloadKeyNewG]
          rw [toArray_val _ _ _ (hP.hkdf2_len _ _).1, bind_val, toArray_val _ _ _ (hP.hkdf2_len _ _).2, bind_val, bind_val]
          simp only []
          by_cases hp : payload.length ≠ 32
          · rw [if_pos hp, if_pos hp]
          · rw [if_neg hp, if_neg hp, toArray_val _ _ _ (by omega)]
            rfl

/-- `read_message` itself (not only `noise_decrypt` around it) returns a value on every message -/
theorem readMessageG_no_crash (P : Prims) (D : AeadDecG) (hP : P.Lawful) (hH : ∀ m, (P.hash m).length = 32)
    (hD : Refines D P.aead) (pro r rpk msg : Bytes) (hr : r.length = 32) :
    ∃ v, readMessageG P D (hs0 P pro r rpk) msg = .val v := by
  have h := noiseDecryptG_total P D hP hH hD pro r rpk msg hr
  unfold noiseDecryptG at h
  rw [initXG_val P hH, bind_val] at h
  cases hrm : readMessageG P D (hs0 P pro r rpk) msg with
  | val v => exact ⟨v, rfl⟩
  | crash s => rw [hrm, bind_crash] at h; cases h

/-! ### file level -/

theorem keyDecrypt_eq_noiseDecrypt (P : Prims) (r rpk inp : Bytes) :
    keyDecrypt P r rpk inp =
      (if inp.length < 4 then ([], .ioRead, none) else
       match validFileFormat (inp.take 4) with
       | none => ([], .format, none)
       | some false => ([], .other, none)
       | some true =>
         if (inp.drop 4).length < handshakeLen then ([], .ioRead, none) else
         match noiseDecrypt P (inp.take 4) r rpk ((inp.drop 4).take handshakeLen) with
         | .error _ => ([], .other, none)
         | .ok (pk, spk, h) =>
           let (ws, res) := decryptChunks P.aead (P.hkdfFile pk h) [] chunkSize ((inp.drop 4).drop handshakeLen)
           (ws, res, if res = .ok then some spk else none)) := by
  unfold keyDecrypt noiseDecrypt
  by_cases h4 : inp.length < 4
  · rw [if_pos h4, if_pos h4]
  rw [if_neg h4, if_neg h4]
  simp only []
  cases validFileFormat (inp.take 4) with
  | none => rfl
  | some b =>
    cases b with
    | false => rfl
    | true =>
      simp only []
      by_cases hh : (inp.drop 4).length < handshakeLen
      · rw [if_pos hh, if_pos hh]
      rw [if_neg hh, if_neg hh]
      cases readMessage P (inp.take 4) r rpk ((inp.drop 4).take handshakeLen) with
      | error e => rfl
      | ok v =>
        obtain ⟨pk, spk, h⟩ := v
        simp only []
        by_cases hp : pk.length ≠ 32
        · rw [if_pos hp, if_pos hp]
        · rw [if_neg hp, if_neg hp]

theorem keyDecryptG_total (P : Prims) (D : AeadDecG) (hP : P.Lawful) (hH : ∀ m, (P.hash m).length = 32)
    (hD : Refines D P.aead) (r rpk inp : Bytes) (hr : r.length = 32) :
    keyDecryptG P D r rpk inp = .val (keyDecrypt P r rpk inp) := by
  rw [keyDecrypt_eq_noiseDecrypt]
  unfold keyDecryptG
  by_cases h4 : inp.length < 4
  · rw [if_pos h4, if_pos h4]
  rw [if_neg h4, if_neg h4]
  simp only []
  cases validFileFormat (inp.take 4) with
  | none => rfl
  | some b =>
    cases b with
    | false => rfl
    | true =>
      simp only []
      by_cases hh : (inp.drop 4).length < handshakeLen
      · rw [if_pos hh, if_pos hh]
      rw [if_neg hh, if_neg hh, noiseDecryptG_total P D hP hH hD _ _ _ _ hr, bind_val]
      cases noiseDecrypt P (inp.take 4) r rpk ((inp.drop 4).take handshakeLen) with
      | error e => rfl
      | ok v =>
        obtain ⟨pk, spk, h⟩ := v
        simp only []
        rw [decryptChunksG_total P.aead D _ [] chunkSize gen_chunkSize_lt (hD _ (hP.hkdfFile_len pk h)), bind_val]

theorem passDecryptG_total (P : Prims) (D : AeadDecG) (hK : ∀ pw salt, (P.kdf pw salt).length = 32)
    (hD : Refines D P.aead) (pw inp : Bytes) :
    passDecryptG P D pw inp = .val (passDecrypt P pw inp) := by
  unfold passDecryptG passDecrypt
  by_cases h4 : inp.length < 4
  · rw [if_pos h4, if_pos h4]
  rw [if_neg h4, if_neg h4]
  simp only []
  cases validFileFormat (inp.take 4) with
  | none => rfl
  | some b =>
    cases b with
    | true => rfl
    | false =>
      simp only []
      rw [show saltLen = 32 from rfl]
      by_cases hh : (inp.drop 4).length < 32
      · rw [if_pos hh, if_pos hh]
      rw [if_neg hh, if_neg hh, slice_val _ _ _ _ (Nat.zero_le _) (Nat.le_refl _), bind_val]
      rw [List.drop_zero, Nat.sub_zero, List.take_length]
      exact decryptChunksG_total P.aead D _ _ chunkSize gen_chunkSize_lt (hD _ (hK _ _)) _

/-! ### encoded keys -/
open Keyring

/-- `enc_pk[..32]`, `enc_pk[32..]` are reached only with the 36 bytes `EncodedPk::try_from` insisted on; the
    `expect` on the second base64 decode sees the string the first decode accepted; `PublicKey::try_from(pk)`
    gets exactly 32 bytes. -/
theorem decodePkG_total (s : Str) : decodePkG s = .val (decodePk s) := by
  unfold decodePkG encodedPkTryFromG decodePk
  cases hb : B64.decode (utf8 s) with
  | none => rfl
  | some b =>
    simp only []
    rw [show encodedPkLen = 36 from rfl]
    by_cases hl : b.length ≠ 36
    · rw [if_pos hl, if_pos hl]; rfl
    rw [if_neg hl, if_neg hl, bind_val]
    have hl' : b.length = 36 := by omega
    simp only []
    unfold decodePublicKeyG
    rw [hb, expectSome_some, bind_val, show publicKeyLen = 32 from rfl, if_neg (by omega),
      sliceTo_val _ _ _ (by omega), bind_val, sliceFrom_val _ _ _ (by omega), bind_val]
    simp only []
    rw [sliceTo_val _ _ _ (by rw [sha256_length]; omega), bind_val]
    by_cases hc : b.drop 32 = (sha256 (b.take 32)).take 4
    · rw [if_neg (by simpa using hc), if_pos hc, keyTryFrom_32 _ (by rw [List.length_take]; omega)]
      rfl
    · rw [if_pos hc, if_neg hc]

/-- `key_bytes[..4]`, `[4..36]`, `[36..84]` are reached only with exactly 84 bytes; the AEAD is called with a
    32-byte scrypt output and a 12-byte nonce; a plaintext that opens from the 48-byte slice has 32 bytes, so
    `PrivateKey::try_from(..).expect` cannot fail. -/
theorem unlockG_total (s : Str) (pw : Bytes) : unlockG s pw = .val (unlockPrivateKey s pw) := by
  unfold unlockG encodedSkTryFromG unlockPrivateKey
  cases hb : B64.decode (utf8 s) with
  | none => rfl
  | some b =>
    simp only []
    rw [show privateKeyCtLen = 84 from rfl]
    by_cases hl : b.length ≠ 84
    · rw [if_pos hl, if_pos hl]; rfl
    rw [if_neg hl, if_neg hl, bind_val]
    have hl' : b.length = 84 := by omega
    simp only []
    unfold unlockPrivateKeyG
    rw [hb, expectSome_some, bind_val, show privateKeyCtLen = 84 from rfl, if_neg hl]
    simp only [skVersion, skSalt, skCt]
    rw [sliceTo_val _ _ _ (by omega), bind_val]
    by_cases hv : b.take 4 ≠ privateKeyVersion
    · rw [if_pos hv, if_pos hv]
    rw [if_neg hv, if_neg hv, slice_val _ _ _ _ (by omega) (by omega), bind_val,
      slice_val _ _ _ _ (by omega) (by omega), bind_val]
    have hct : (b.drop 36).take (84 - 36) = b.drop 36 := List.take_of_length_le (by rw [List.length_drop]; omega)
    rw [hct, show (36 - 4 : Nat) = 32 from rfl]
    have hkl := lockKdf_length pw ((b.drop 4).take 32)
    have hzl : (zeros 12).length = 12 := List.length_replicate ..
    rw [aeadOpenG_total _ _ _ _ hkl hzl, bind_val]
    cases ho : aeadOpen (lockKdf pw ((b.drop 4).take 32)) (zeros 12) (b.take 4) (b.drop 36) with
    | none => rfl
    | some pt =>
      have := aeadOpen_length _ _ _ _ _ hkl hzl ho
      simp only []
      rw [keyTryFrom_32 _ (by rw [List.length_drop] at this; omega)]
      rfl

/-! ### keyring file -/

theorem addKeyLoopG_val (n p : Str) (ks : List Key) :
    addKeyLoopG (some n) (some p) ks = .val (ks.any fun k => k.name == n || k.pk == p) := by
  induction ks with
  | nil => rfl
  | cons k ks ih =>
    unfold addKeyLoopG
    simp only [expectSome_some, bind_val, List.any_cons]
    by_cases h1 : (k.name == n) = true
    · rw [if_pos h1, h1]; rfl
    · rw [if_neg h1]
      by_cases h2 : (k.pk == p) = true
      · rw [if_pos h2, h2]; simp
      · rw [if_neg h2, ih]
        simp only [Bool.not_eq_true] at h1 h2
        rw [h1, h2]; rfl

/-- the `unwrap`s in `add_key` come after the three `is_none` checks, which leave only `Some`/`Some` -/
theorem addKeyG_val (st : PSt) : addKeyG st = .val (addKey st) := by
  unfold addKeyG addKey
  cases hn : st.name with
  | none => cases hp : st.pk <;> rfl
  | some n =>
    cases hp : st.pk with
    | none => rfl
    | some p =>
      simp only [Option.isNone_some, Option.isSome_some, Bool.false_and, Bool.and_false, Bool.false_eq_true, if_false,
        addKeyLoopG_val, bind_val, expectSome_some]
      cases (st.keys.any fun k => k.name == n || k.pk == p) <;> rfl

theorem stepLineG_val (st : PSt) (line : Str) : stepLineG st line = .val (stepLine st line) := by
  unfold stepLineG
  simp only []
  by_cases hk : startsWith "[Key]" (trim (line.filter (· != '\t'))) = true
  · rw [if_pos hk]
    unfold stepLine
    simp only []
    rw [if_pos hk]
    by_cases hf : st.found = true
    · rw [if_pos hf, if_pos hf]
      cases hn : st.name with
      | none => simp [addKey, hn]
      | some n =>
        cases hp : st.pk with
        | none => simp [addKey, hn, hp]
        | some p => simp only [Option.isNone_some, Bool.false_eq_true, if_false]; exact addKeyG_val st
    · rw [if_neg hf, if_neg hf]
  · rw [if_neg hk]

theorem parseLinesG_val (st : PSt) (ls : List Str) : parseLinesG st ls = .val (parseLines st ls) := by
  induction ls generalizing st with
  | nil => rfl
  | cons l ls ih =>
    unfold parseLinesG parseLines
    rw [stepLineG_val, bind_val]
    cases stepLine st l with
    | none => rfl
    | some st' => exact ih st'

theorem parseG_total (text : Str) : parseG text = .val (parse text) := by
  unfold parseG parse
  rw [parseLinesG_val, bind_val]
  cases parseLines {} (lines text) with
  | none => rfl
  | some st =>
    simp only []
    by_cases hf : (!st.found) = true
    · rw [if_pos hf, if_pos hf]
    · rw [if_neg hf, if_neg hf, addKeyG_val, bind_val]

end Kestrel.Guarded
