/-
  Noise X: what `read_message` makes of what `write_message` produced.
-/
import KestrelModel.Noise
import KestrelProofs.Aead
namespace Kestrel

/-- functional laws of the primitive record (no security content) -/
structure Prims.Lawful (P : Prims) : Prop where
  aead : P.aead.Lawful
  hkdf2_len : ∀ ck ikm, (P.hkdf2 ck ikm).1.length = 32 ∧ (P.hkdf2 ck ikm).2.length = 32
  hkdfFile_len : ∀ pk h, (P.hkdfFile pk h).length = 32

namespace Noise

/-- the two sides of X start from the same symmetric state when the initiator addresses the responder's key -/
theorem initI_eq_initR (P : Prims) (pro k : Bytes) : initI P pro k = initR P pro k := rfl

/-- shape of a successful `write_message` -/
theorem writeMessage_ok (P : Prims) (pro s spk rs e epk payload d1 d2 : Bytes)
    (h1 : P.dh e rs = some d1) (h2 : P.dh s rs = some d2) :
    ∃ encS encP h,
      writeMessage P pro s spk rs e epk payload = .ok (epk ++ encS ++ encP, h) ∧
      encS = P.aead.enc (P.hkdf2 ((initI P pro rs).ck) d1).2 0 (P.hash ((initI P pro rs).h ++ epk)) spk ∧
      encP = P.aead.enc
        (P.hkdf2 (P.hkdf2 ((initI P pro rs).ck) d1).1 d2).2 0
        (P.hash ((P.hash ((initI P pro rs).h ++ epk)) ++ encS)) payload ∧
      h = P.hash (P.hash ((P.hash ((initI P pro rs).h ++ epk)) ++ encS) ++ encP) := by
  refine ⟨_, _, _, ?_, rfl, rfl, rfl⟩
  simp [writeMessage, h1, h2, Sym.mixKey, Sym.encryptAndHash, Sym.mixHash]

/-- **read ∘ write**: the responder recovers the payload, the sender's static key and the same handshake hash. -/
theorem readMessage_writeMessage (P : Prims) (hP : P.Lawful) (pro s spk r rpk e epk payload d1 d2 msg h : Bytes)
    (hE : epk.length = 32) (hS : spk.length = 32) (hPl : payload.length + 96 ≤ 65535)
    (h1 : P.dh e rpk = some d1) (h2 : P.dh s rpk = some d2)
    (h1' : P.dh r epk = some d1) (h2' : P.dh r spk = some d2)
    (hw : writeMessage P pro s spk rpk e epk payload = .ok (msg, h)) :
    readMessage P pro r rpk msg = .ok (payload, spk, h) := by
  obtain ⟨encS, encP, hh, hw', hS', hP', hH'⟩ := writeMessage_ok P pro s spk rpk e epk payload d1 d2 h1 h2
  rw [hw'] at hw
  simp only [Except.ok.injEq, Prod.mk.injEq] at hw
  obtain ⟨hmsg, hheq⟩ := hw
  subst hmsg hheq
  have hk1 := (hP.hkdf2_len ((initI P pro rpk).ck) d1).2
  have hk2 := (hP.hkdf2_len (P.hkdf2 ((initI P pro rpk).ck) d1).1 d2).2
  have hSl : encS.length = 48 := by rw [hS', hP.aead.enc_length _ _ _ _ hk1, hS]
  have hPl' : encP.length = payload.length + 16 := by rw [hP', hP.aead.enc_length _ _ _ _ hk2]
  have hlen : (epk ++ encS ++ encP).length = payload.length + 96 := by
    simp only [List.length_append, hE, hSl, hPl']; omega
  have t1 : (epk ++ encS ++ encP).take 32 = epk := by
    rw [List.append_assoc, ← hE]; simp
  have t2 : ((epk ++ encS ++ encP).drop 32).take 48 = encS := by
    rw [List.append_assoc, ← hE, List.drop_left', ← hSl]; simp; rfl
  have t3 : (epk ++ encS ++ encP).drop 80 = encP := by
    have : (epk ++ encS).length = 80 := by simp [hE, hSl]
    rw [← this]; simp
  have hd1 : P.aead.dec (P.hkdf2 ((initI P pro rpk).ck) d1).2 0 (P.hash ((initI P pro rpk).h ++ epk)) encS = some spk := by
    rw [hS']; exact hP.aead.dec_enc _ _ _ _ hk1
  have hd2 : P.aead.dec (P.hkdf2 (P.hkdf2 ((initI P pro rpk).ck) d1).1 d2).2 0
      (P.hash ((P.hash ((initI P pro rpk).h ++ epk)) ++ encS)) encP = some payload := by
    rw [hP']; exact hP.aead.dec_enc _ _ _ _ hk2
  have hnot : ¬ ((epk ++ encS ++ encP).length < 96 ∨ (epk ++ encS ++ encP).length > 65535) := by
    rw [hlen]; omega
  unfold readMessage
  rw [if_neg hnot]
  simp only [t1, t2, t3, ← initI_eq_initR, h1', Sym.mixKey, Sym.decryptAndHash, Sym.mixHash, Option.getD_some, hd1, hS,
    h2', hd2, ne_eq, not_true_eq_false, if_false, hH']

end Noise
end Kestrel

namespace Kestrel.Noise

theorem writeMessage_length (P : Prims) (hP : P.Lawful) (pro s spk rs e epk payload msg h : Bytes)
    (hE : epk.length = 32) (hS : spk.length = 32)
    (hw : writeMessage P pro s spk rs e epk payload = .ok (msg, h)) : msg.length = payload.length + 96 := by
  unfold writeMessage at hw
  split at hw
  · simp at hw
  · rename_i d1 h1
    simp only [] at hw
    split at hw
    · simp at hw
    · rename_i d2 h2
      simp only [Except.ok.injEq, Prod.mk.injEq] at hw
      obtain ⟨hm, _⟩ := hw
      rw [← hm]
      simp only [Sym.encryptAndHash, Sym.mixKey, Sym.mixHash, Option.getD_some, List.length_append, hE]
      rw [hP.aead.enc_length _ _ _ _ (hP.hkdf2_len _ _).2, hP.aead.enc_length _ _ _ _ (hP.hkdf2_len _ _).2, hS]
      omega

/-- `write_message` fails exactly when one of the two DH results is the all-zero value -/
theorem writeMessage_error_iff (P : Prims) (pro s spk rs e epk payload : Bytes) :
    (∃ err, writeMessage P pro s spk rs e epk payload = .error err) ↔ (P.dh e rs = none ∨ P.dh s rs = none) := by
  unfold writeMessage
  cases h1 : P.dh e rs with
  | none => simp
  | some d1 =>
    cases h2 : P.dh s rs with
    | none => simp
    | some d2 => simp

end Kestrel.Noise
