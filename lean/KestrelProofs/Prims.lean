/-
  The concrete primitive record satisfies the functional laws (`Prims.Lawful`): output lengths of SHA-256,
  HMAC, the two HKDF uses, and the AEAD laws.  No cryptographic assumption is involved.
-/
import KestrelModel.Noise
import KestrelProofs.Aead
import KestrelProofs.Noise
namespace Kestrel

theorem ShaSt.bytes_length (s : ShaSt) : s.bytes.length = 32 := by
  simp [ShaSt.bytes, u32be_length]

theorem sha256_length (m : Bytes) : (sha256 m).length = 32 := ShaSt.bytes_length _

theorem hmacSha256_length (k m : Bytes) : (hmacSha256 k m).length = 32 := sha256_length _

theorem hkdfNoise_length (ck ikm : Bytes) : (hkdfNoise ck ikm).1.length = 32 ∧ (hkdfNoise ck ikm).2.length = 32 :=
  ⟨hmacSha256_length _ _, hmacSha256_length _ _⟩

theorem hkdfSha256_32_length (salt ikm info : Bytes) : (hkdfSha256 salt ikm info 32).length = 32 := by
  simp [hkdfSha256, hkdfExpandBlocks, hmacSha256_length]

theorem concretePrims_lawful : concretePrims.Lawful where
  aead := chapolyNoise_lawful
  hkdf2_len := hkdfNoise_length
  hkdfFile_len pk h := hkdfSha256_32_length [] pk h

end Kestrel
