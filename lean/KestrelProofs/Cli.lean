/-
  Helper lemmas for the command-line model (`KestrelModel/Cli.lean`):

  §A  the sink calls (`flush` count, "no call was made") of the decrypt / encrypt entry points when they are run the way
      the CLI runs them: unscripted source (fault-free) and unscripted sink (benign);
  §B  `deliver`, `World.setFile`, the shape of the `run*` commands;
  §C  getopts: `splitEq`, `scan` on rendered options, `render` and `parseArgv`.
-/
import KestrelModel.Cli
import KestrelProofs.IOBasics
import KestrelProofs.DecIO
import KestrelProofs.EncIO
namespace Kestrel

/-! ## §A  sink calls -/

/-- the unscripted source and sink the CLI model uses -/
theorem Src.plain_faultFree (inp : Bytes) : ({ inp := inp } : Src).faultFree := fun _ he => absurd he (by simp)
theorem Snk.plain_benign : ({} : Snk).benign := ⟨fun _ he => absurd he (by simp), fun _ he => absurd he (by simp)⟩

/-- a successful `flush()` is counted -/
theorem Snk.flush_true_flushes {k k' : Snk} (h : k.flush = (true, k')) : k'.flushes = k.flushes + 1 := by
  unfold Snk.flush at h
  split at h
  · simp only [Prod.mk.injEq, true_and] at h; subst h; rfl
  · simp only [Prod.mk.injEq, true_and] at h; subst h; rfl
  · simp at h

/-- one released chunk = exactly one successful flush (ALL scripts) -/
theorem writeChunk_flushes {k k' : Snk} {at_ : Nat × Nat} {pt : Bytes} (h : writeChunk k at_ pt = (true, k')) :
    k'.flushes = k.flushes + 1 := by
  unfold writeChunk at h
  split at h
  · simp at h
  · rename_i k1 hw
    obtain ⟨_, _, _, _, _, _, h5, _⟩ := Snk.writeAll_spec _ _ _ _ _ _ hw
    rw [Snk.flush_true_flushes h, h5]

/-- **flush count of `decrypt_chunks`.** Fault-free source, benign sink: one flush per released chunk, and when no chunk is
    released the sink is *the same object* — not one `write()` or `flush()` call was made. -/
theorem decLoopIO_flushes (A : Aead) (key aad : Bytes) (cs : Nat) :
    ∀ (fuel fuel0 ctr : Nat) (s : Src) (k : Snk) (res : Res) (s' : Src) (k' : Snk) (ws : List Bytes) (pres : Res),
    s.faultFree → k.benign → s.inp.length + 1 ≤ fuel → s.inp.length ≤ fuel0 →
    decLoopIO A key aad cs fuel ctr s k = (res, s', k') →
    decLoop A key aad cs fuel0 ctr s.inp = (ws, pres) →
    k'.flushes = k.flushes + ws.length ∧ (ws = [] → k' = k) := by
  intro fuel
  induction fuel with
  | zero => intro fuel0 ctr s k res s' k' ws pres _ _ hf; omega
  | succ f ih =>
    intro fuel0 ctr s k res s' k' ws pres hs hk hf hf0 hIO hP
    rw [← decLoop_fuel_succ A key aad cs fuel0 ctr s.inp hf0] at hP
    rw [decLoopIO_succ] at hIO
    rcases hrr : readRecordIO A key aad cs ctr s with ⟨o, s3⟩
    rw [hrr] at hIO
    obtain ⟨hsc, hchunk, _⟩ := readRecordIO_spec hrr
    cases o with
    | fail e =>
      simp only [Prod.mk.injEq] at hIO
      obtain ⟨rfl, rfl, rfl⟩ := hIO
      obtain ⟨_, h2⟩ := readRecordIO_fail_pure hrr fuel0
      rw [h2 hs] at hP
      simp only [Prod.mk.injEq] at hP; obtain ⟨rfl, rfl⟩ := hP
      exact ⟨by simp, fun _ => rfl⟩
    | chunk pt last =>
      obtain ⟨rest', hp1, hi3, hpos3, hlast⟩ := hchunk pt last rfl
      rw [decLoop_succ, hp1] at hP
      simp only at hP hIO
      have hlen := parse1_chunk_len hp1
      rcases hwc : writeChunk k (s3.pos, s3.nreads) pt with ⟨r, k2⟩
      rw [hwc] at hIO
      obtain ⟨p, L, ho, hpp, hpt, _, _, _, _, hbn⟩ := writeChunk_spec hwc
      obtain ⟨rfl, hk2⟩ := hbn hk
      have hfl := writeChunk_flushes hwc
      simp only at hIO
      cases last with
      | true =>
        have hr : rest' = [] := hlast rfl hs.noFalseEof
        subst hr
        simp only [if_true, List.length_nil, ne_eq, not_true_eq_false, if_false, Prod.mk.injEq] at hP hIO
        obtain ⟨rfl, rfl⟩ := hP
        obtain ⟨rfl, rfl, rfl⟩ := hIO
        exact ⟨by simp [hfl], fun h => by simp at h⟩
      | false =>
        simp only [Bool.false_eq_true, if_false, Prod.mk.injEq] at hP hIO
        obtain ⟨rfl, rfl⟩ := hP
        obtain ⟨h1, _⟩ := ih fuel0 (ctr+1) s3 k2 res s' k' _ _ (Src.faultFree_of_suffix hs hsc) hk2
            (by rw [hi3]; omega) (by rw [hi3]; omega) hIO (by rw [hi3])
        exact ⟨by rw [h1, hfl]; simp only [List.length_cons]; omega, fun h => by simp at h⟩

/-- a pure run that reports success has released at least one chunk (an empty file is one empty chunk) -/
theorem decLoop_ok_ne_nil {A : Aead} {key aad : Bytes} {cs fuel ctr : Nat} {inp : Bytes} {ws : List Bytes}
    (h : decLoop A key aad cs fuel ctr inp = (ws, .ok)) : ws ≠ [] := by
  cases fuel with
  | zero => simp [decLoop] at h
  | succ f =>
    rw [decLoop_succ] at h
    split at h
    · simp only [Prod.mk.injEq] at h
      have := h.2
      rename_i e hp
      unfold parse1 at hp
      subst this
      split at hp
      · simp at hp
      · split at hp
        · simp at hp
        · split at hp
          · simp at hp
          · split at hp <;> simp at hp
    · split at h
      · split at h
        · simp at h
        · simp only [Prod.mk.injEq] at h; rw [← h.1]; simp
      · simp only [Prod.mk.injEq] at h; rw [← h.1]; simp

/-- **`key_decrypt` as the CLI runs it.** Fault-free source, benign sink: result, sender and output are the pure ones, the
    number of flushes is the number of released chunks, and with no released chunk the sink was never called. -/
theorem keyDecryptIO_calls (P : Prims) (r rpk : Bytes) (src : Src) (k : Snk) (hs : src.faultFree) (hk : k.benign)
    {res pres : Res} {s' : Src} {k' : Snk} {sender psender : Option Bytes} {writes : List Bytes}
    (hIO : keyDecryptIO P r rpk src k = (res, s', k', sender))
    (hP : keyDecrypt P r rpk src.inp = (writes, pres, psender)) :
    res = pres ∧ sender = psender ∧ k'.out = k.out ++ writes.flatten ∧
    k'.flushes = k.flushes + writes.length ∧ (writes = [] → k' = k) ∧ (pres = .ok → writes ≠ [] ∧ ∃ spk, psender = some spk) := by
  rcases keyDecryptIO_cases hIO hP with ⟨rfl, rfl, hok, _, h⟩ | ⟨s2, pk, h, spk, _, _, _, hsc, hd, hpd, rfl, rfl⟩
  · rcases h with ⟨h1, h2, h3, _⟩ | ⟨h1, h2⟩
    · subst h3; exact ⟨h1, h2.symm, by simp, by simp, fun _ => rfl, fun h => absurd (h1.trans h) hok⟩
    · obtain ⟨h3, h4, h5⟩ := h2 hs.benign
      subst h4; exact ⟨by rw [h1, h3], h5.symm, by simp, by simp, fun _ => rfl, fun h => by rw [h3] at h; simp at h⟩
  · have hs2 := Src.faultFree_of_suffix hs hsc
    obtain ⟨h1, h2⟩ := decLoopIO_faultFree P.aead _ [] Generated.chunkSize hs2 hk (Nat.le_refl _) (Nat.le_refl _) hd hpd
    obtain ⟨h3, h4⟩ := decLoopIO_flushes P.aead _ [] Generated.chunkSize _ _ 0 s2 k res s' k' writes pres hs2 hk
      (Nat.le_refl _) (Nat.le_refl _) hd hpd
    refine ⟨h1, by rw [h1], h2, h3, h4, fun hok => ?_⟩
    subst hok
    exact ⟨decLoop_ok_ne_nil hpd, spk, by simp⟩

/-- **`pass_decrypt` as the CLI runs it.** -/
theorem passDecryptIO_calls (P : Prims) (pw : Bytes) (src : Src) (k : Snk) (hs : src.faultFree) (hk : k.benign)
    {res pres : Res} {s' : Src} {k' : Snk} {writes : List Bytes}
    (hIO : passDecryptIO P pw src k = (res, s', k'))
    (hP : passDecrypt P pw src.inp = (writes, pres)) :
    res = pres ∧ k'.out = k.out ++ writes.flatten ∧
    k'.flushes = k.flushes + writes.length ∧ (writes = [] → k' = k) ∧ (pres = .ok → writes ≠ []) := by
  rcases passDecryptIO_cases hIO hP with ⟨rfl, hok, _, h⟩ | ⟨s2, salt, _, _, _, hsc, hd, hpd⟩
  · rcases h with ⟨h1, h3, _⟩ | ⟨h1, h2⟩
    · subst h3; exact ⟨h1, by simp, by simp, fun _ => rfl, fun h => absurd (h1.trans h) hok⟩
    · obtain ⟨h3, h4⟩ := h2 hs.benign
      subst h4; exact ⟨by rw [h1, h3], by simp, by simp, fun _ => rfl, fun h => by rw [h3] at h; simp at h⟩
  · have hs2 := Src.faultFree_of_suffix hs hsc
    obtain ⟨h1, h2⟩ := decLoopIO_faultFree P.aead _ _ Generated.chunkSize hs2 hk (Nat.le_refl _) (Nat.le_refl _) hd hpd
    obtain ⟨h3, h4⟩ := decLoopIO_flushes P.aead _ _ Generated.chunkSize _ _ 0 s2 k res s' k' writes pres hs2 hk
      (Nat.le_refl _) (Nat.le_refl _) hd hpd
    refine ⟨h1, h2, h3, h4, fun hok => ?_⟩
    subst hok
    exact decLoop_ok_ne_nil hpd

/-! ### encrypt side -/

open EncIO in
/-- a record that was written completely ended with a successful flush (ALL scripts) -/
theorem writeRecord_true_flushes (k : Snk) (at_ : Nat × Nat) (hdr body : Bytes)
    (h : (writeRecord k at_ hdr body).1 = true) : 1 ≤ (writeRecord k at_ hdr body).2.flushes := by
  unfold writeRecord at h ⊢
  split
  · rename_i k1 h1; rw [h1] at h; simp at h
  · rename_i k1 h1
    rw [h1] at h
    simp only at h ⊢
    split
    · rename_i k2 h2; rw [h2] at h; simp at h
    · rename_i k2 h2
      rw [h2] at h
      simp only at h ⊢
      have := Snk.flush_true_flushes (k := k2) (k' := k2.flush.2) (Prod.ext h rfl)
      omega

open EncIO in
/-- `encrypt_chunks` reports success only after the final record has been flushed (ALL scripts) -/
theorem encLoopIO_ok_flushes (A : Aead) (key aad : Bytes) (cs : Nat) :
    ∀ (fuel ctr : Nat) (prev : Bytes) (done : Bool) (s : Src) (k : Snk),
    (encLoopIO A key aad cs fuel ctr prev done s k).1 = .ok → 1 ≤ (encLoopIO A key aad cs fuel ctr prev done s k).2.2.flushes := by
  intro fuel
  induction fuel with
  | zero => intro _ _ _ _ _ h; simp [encLoopIO] at h
  | succ fuel ih =>
    intro ctr prev done s k
    cases hread : s.read cs with
    | mk rr s' =>
      cases rr with
      | err => rw [encLoopIO_err A key aad cs hread]; simp
      | interrupted => rw [encLoopIO_int A key aad cs hread]; simp
      | got r =>
        by_cases hr : r.length = 0
        · rw [encLoopIO_last A key aad cs hread hr]
          cases hw : (recW A key aad ctr true prev s' k).1
          · simp
          · intro _
            exact writeRecord_true_flushes _ _ _ _ hw
        · cases done with
          | true => rw [encLoopIO_unexp A key aad cs hread hr]; simp
          | false =>
            rw [encLoopIO_more A key aad cs hread hr]
            cases (recW A key aad ctr false prev s' k).1
            · simp
            · simpa using ih (ctr+1) r false s' _

open EncIO in
theorem encryptChunksIO_ok_flushes (A : Aead) (key aad : Bytes) (cs : Nat) (s : Src) (k : Snk)
    (h : (encryptChunksIO A key aad cs s k).1 = .ok) : 1 ≤ (encryptChunksIO A key aad cs s k).2.2.flushes := by
  unfold encryptChunksIO at h ⊢
  split
  · rename_i h1; rw [h1] at h; simp at h
  · rename_i h1; rw [h1] at h; simp at h
  · rename_i r s' h1
    rw [h1] at h
    exact encLoopIO_ok_flushes A key aad cs _ _ _ _ _ _ h

open EncIO in
/-- header + chunks (the common shape of `key_encrypt` / `pass_encrypt`) as the CLI runs it: fault-free source, benign sink —
    always succeeds, the output is the pure one for the source's read schedule, and at least one flush happened -/
theorem htc_calls (A : Aead) (key aad : Bytes) (cs : Nat) (hcs : 0 < cs) (hdr body : Bytes) (src : Src) (k : Snk)
    (hs : src.faultFree) (hk : k.benign) :
    (hdrThenChunks A key aad cs hdr body src k).1 = .ok ∧
    (hdrThenChunks A key aad cs hdr body src k).2.2.out =
      k.out ++ (hdr ++ body ++ (encryptChunks A key aad (Src.reads cs src)).1) ∧
    1 ≤ (hdrThenChunks A key aad cs hdr body src k).2.2.flushes := by
  obtain ⟨h1, h2⟩ := htc_faultFree A key aad cs hdr body hcs src k hs hk
  rw [encryptChunks_reads] at h1
  refine ⟨h1, h2, ?_⟩
  unfold hdrThenChunks at h1 ⊢
  split
  · rename_i hw
    rw [if_pos hw] at h1
    exact encryptChunksIO_ok_flushes A key aad cs _ _ h1
  · rename_i hw
    rw [if_neg hw] at h1
    simp at h1

/-! ## §B  the world, `deliver`, the shape of the commands -/

namespace Cli
open Kestrel.Keyring (Str utf8)

theorem World.file_setFile (w : World) (p : Str) (b : Bytes) : (w.setFile p b).file p = some b := by
  simp [World.file, World.setFile]

theorem World.file_setFile_ne (w : World) {p q : Str} (b : Bytes) (h : q ≠ p) : (w.setFile p b).file q = w.file q := by
  have hpq : (p == q) = false := by simpa using fun h' => h h'.symm
  simp only [World.file, World.setFile, List.find?_cons, hpq]
  congr 1
  induction w.files with
  | nil => rfl
  | cons a l ih =>
    simp only [List.filter_cons, List.find?_cons]
    by_cases ha : a.1 = p
    · have h1 : (a.1 != p) = false := by simp [ha]
      have h2 : (a.1 == q) = false := by simpa [ha] using fun h' => h h'.symm
      simp only [h1, h2, Bool.false_eq_true, if_false]
      exact ih
    · have h1 : (a.1 != p) = true := by simpa using ha
      simp only [h1, if_true, List.find?_cons]
      cases a.1 == q <;> simp [ih]

theorem World.setFile_env (w : World) (p : Str) (b : Bytes) : (w.setFile p b).env = w.env := rfl
theorem World.setFile_stdin (w : World) (p : Str) (b : Bytes) : (w.setFile p b).stdin = w.stdin := rfl

/-- no call was made on the sink: nothing is delivered and the world is the same object -/
theorem deliver_init (w : World) (outf : Option Str) : deliver w outf {} = (w, []) := by
  cases outf <;> rfl

theorem deliver_none (w : World) (k : Snk) : deliver w none k = (w, k.out) := rfl

/-- at least one flush: the output file exists and holds exactly the sink's bytes -/
theorem deliver_flushed (w : World) (q : Str) (k : Snk) (h : 1 ≤ k.flushes) :
    deliver w (some q) k = (w.setFile q k.out, []) := by
  have : (k.flushes == 0) = false := by simp; omega
  simp [deliver, this]

/-- what `deliver` can do to a named output file: nothing, or create/truncate it with the sink's bytes -/
theorem deliver_some_cases (w : World) (q : Str) (k : Snk) :
    (k.log = [] ∧ k.flushes = 0 ∧ deliver w (some q) k = (w, [])) ∨
    ((k.log ≠ [] ∨ k.flushes ≠ 0) ∧ deliver w (some q) k = (w.setFile q k.out, [])) := by
  by_cases h : k.log = [] ∧ k.flushes = 0
  · left; refine ⟨h.1, h.2, ?_⟩; simp [deliver, h.1, h.2]
  · right
    refine ⟨by by_cases h1 : k.log = [] <;> simp_all, ?_⟩
    have : (k.log.isEmpty && k.flushes == 0) = false := by
      by_cases h1 : k.log = []
      · have : k.flushes ≠ 0 := fun h2 => h ⟨h1, h2⟩
        simp [this]
      · simp [h1]
    simp [deliver, this]

/-! ### error classes of the preparatory steps -/

theorem openInput_err {w : World} {inf : Option Str} {e : Err} (h : openInput w inf = .error e) : e = .noInput := by
  unfold openInput at h
  split at h
  · split at h <;> simp at h; exact h.symm
  · simp at h

theorem openKeyring_err {w : World} {kr : Option Str} {e : Err} (h : openKeyring w kr = .error e) :
    e = .noKeyring ∨ e = .keyringRead ∨ e = .keyringUtf8 ∨ e = .keyringParse := by
  unfold openKeyring at h
  simp only at h
  split at h
  · simp at h; simp [← h]
  · split at h
    · simp at h; simp [← h]
    · split at h
      · simp at h; simp [← h]
      · split at h
        · simp at h; simp [← h]
        · simp at h

theorem askPass_err {w : World} {b : Bool} {v : String} {e : Err} (h : askPass w b v = .error e) : e = .noPassword := by
  unfold askPass at h
  split at h
  · split at h <;> simp at h; exact h.symm
  · simp at h; exact h.symm

theorem unlockNamed_err {w : World} {ks : List Keyring.Key} {name : Str} {b : Bool} {e : Err}
    (h : unlockNamed w ks name b = .error e) :
    e = .keyNotFound ∨ e = .pkDecode ∨ e = .noPrivateKey ∨ e = .noPassword ∨ e = .unlockFailed := by
  unfold unlockNamed at h
  split at h
  · simp at h; simp [← h]
  · split at h
    · simp at h; simp [← h]
    · split at h
      · simp at h; simp [← h]
      · split at h
        · rename_i e' hp
          simp at h; subst h
          simp [askPass_err hp]
        · split at h
          · simp at h; simp [← h]
          · simp at h

/-- the failure causes of `decrypt` / `encrypt` that are decided before the cryptographic call -/
def earlyCauses : List Err :=
  [.sameFile, .noInput, .noKeyring, .keyringRead, .keyringUtf8, .keyringParse, .keyNotFound, .pkDecode,
   .noPrivateKey, .noPassword, .unlockFailed]

/-- the sender line -/
def senderOf (ks : List Keyring.Key) : Option Bytes → Option (Sum Str Str)
  | some spk => (match Keyring.getNameFromKey ks (Keyring.encodePk spk) with
      | some n => some (Sum.inl n)
      | none => some (Sum.inr (Keyring.encodePk spk)))
  | none => none

/-- the end of `runDecrypt`: deliver what the sink holds, report -/
def decryptFinish (w : World) (outf : Option Str) (ks : List Keyring.Key) (r : Res × Src × Snk × Option Bytes) : Outcome :=
  if r.1 = .ok then
    { exit := 0, world := (deliver w outf r.2.2.1).1, stdout := (deliver w outf r.2.2.1).2, sender := senderOf ks r.2.2.2 }
  else { exit := 1, world := (deliver w outf r.2.2.1).1, stdout := (deliver w outf r.2.2.1).2, err := some (.crypto r.1) }

/-- the end of the three other stream commands -/
def streamFinish (w : World) (outf : Option Str) (r : Res × Src × Snk) : Outcome :=
  if r.1 = .ok then { exit := 0, world := (deliver w outf r.2.2).1, stdout := (deliver w outf r.2.2).2 }
  else { exit := 1, world := (deliver w outf r.2.2).1, stdout := (deliver w outf r.2.2).2, err := some (.crypto r.1) }

/-- `runDecrypt` once the input, the keyring and the key are there -/
theorem runDecrypt_path {P : Prims} {w : World} {inf : Option Str} {to : Str} {outf kr : Option Str} {e : Bool}
    {input : Bytes} {ks : List Keyring.Key} {sk pk : Bytes}
    (hsf : sameFile inf outf = false) (hi : openInput w inf = .ok input) (hk : openKeyring w kr = .ok ks)
    (hu : unlockNamed w ks to e = .ok (sk, pk)) :
    runDecrypt P w inf to outf kr e = decryptFinish w outf ks (keyDecryptIO P sk pk { inp := input } {}) := by
  simp only [runDecrypt, hsf, hi, hk, hu, Bool.false_eq_true, if_false, decryptFinish]
  generalize keyDecryptIO P sk pk { inp := input } {} = r
  obtain ⟨res, s, k, snd⟩ := r
  simp only
  generalize deliver w outf k = d
  obtain ⟨w', out⟩ := d
  cases snd <;> rfl

/-- **shape of `runDecrypt`**: an early failure that returns the world as it was, or the cryptographic call -/
theorem runDecrypt_spec (P : Prims) (w : World) (inf : Option Str) (to : Str) (outf kr : Option Str) (e : Bool) :
    (∃ c, c ∈ earlyCauses ∧ runDecrypt P w inf to outf kr e = fail w c) ∨
    (∃ input ks sk pk, sameFile inf outf = false ∧ openInput w inf = .ok input ∧ openKeyring w kr = .ok ks ∧
      unlockNamed w ks to e = .ok (sk, pk) ∧
      runDecrypt P w inf to outf kr e = decryptFinish w outf ks (keyDecryptIO P sk pk { inp := input } {})) := by
  cases hsf : sameFile inf outf with
  | true => left; exact ⟨.sameFile, by simp [earlyCauses], by simp [runDecrypt, hsf]⟩
  | false =>
    cases hi : openInput w inf with
    | error c =>
      left; refine ⟨c, ?_, by simp [runDecrypt, hsf, hi]⟩
      rw [openInput_err hi]; simp [earlyCauses]
    | ok input =>
      cases hk : openKeyring w kr with
      | error c =>
        left; refine ⟨c, ?_, by simp [runDecrypt, hsf, hi, hk]⟩
        rcases openKeyring_err hk with h | h | h | h <;> simp [h, earlyCauses]
      | ok ks =>
        cases hu : unlockNamed w ks to e with
        | error c =>
          left; refine ⟨c, ?_, by simp [runDecrypt, hsf, hi, hk, hu]⟩
          rcases unlockNamed_err hu with h | h | h | h | h <;> simp [h, earlyCauses]
        | ok kp =>
          obtain ⟨sk, pk⟩ := kp
          right
          exact ⟨input, ks, sk, pk, rfl, rfl, rfl, hu, runDecrypt_path hsf hi hk hu⟩

theorem streamFinish_eq (w : World) (outf : Option Str) (res : Res) (s : Src) (k : Snk) :
    (match deliver w outf k with
      | (w', out) =>
        if res = .ok then ({ exit := 0, world := w', stdout := out } : Outcome)
        else { exit := 1, world := w', stdout := out, err := some (.crypto res) }) = streamFinish w outf (res, s, k) := by
  simp only [streamFinish]

/-- `runPassDecrypt` once the input and the password are there -/
theorem runPassDecrypt_path {P : Prims} {w : World} {inf outf : Option Str} {e : Bool} {input pw : Bytes}
    (hsf : sameFile inf outf = false) (hi : openInput w inf = .ok input) (hp : askPass w e = .ok pw) :
    runPassDecrypt P w inf outf e = streamFinish w outf (passDecryptIO P pw { inp := input } {}) := by
  simp only [runPassDecrypt, hsf, hi, hp, Bool.false_eq_true, if_false]
  generalize passDecryptIO P pw { inp := input } {} = r
  obtain ⟨res, s, k⟩ := r
  exact streamFinish_eq w outf res s k

theorem runPassDecrypt_spec (P : Prims) (w : World) (inf outf : Option Str) (e : Bool) :
    (∃ c, c ∈ earlyCauses ∧ runPassDecrypt P w inf outf e = fail w c) ∨
    (∃ input pw, sameFile inf outf = false ∧ openInput w inf = .ok input ∧ askPass w e = .ok pw ∧
      runPassDecrypt P w inf outf e = streamFinish w outf (passDecryptIO P pw { inp := input } {})) := by
  cases hsf : sameFile inf outf with
  | true => left; exact ⟨.sameFile, by simp [earlyCauses], by simp [runPassDecrypt, hsf]⟩
  | false =>
    cases hi : openInput w inf with
    | error c =>
      left; refine ⟨c, ?_, by simp [runPassDecrypt, hsf, hi]⟩
      rw [openInput_err hi]; simp [earlyCauses]
    | ok input =>
      cases hp : askPass w e with
      | error c =>
        left; refine ⟨c, ?_, by simp [runPassDecrypt, hsf, hi, hp]⟩
        rw [askPass_err hp]; simp [earlyCauses]
      | ok pw => right; exact ⟨input, pw, rfl, rfl, rfl, runPassDecrypt_path hsf hi hp⟩

/-- `runPassEncrypt` once the input and the password are there -/
theorem runPassEncrypt_path {P : Prims} {rnd : Rand} {w : World} {inf outf : Option Str} {e : Bool} {input pw : Bytes}
    (hsf : sameFile inf outf = false) (hi : openInput w inf = .ok input) (hp : askPass w e = .ok pw) :
    runPassEncrypt P rnd w inf outf e = streamFinish w outf (passEncryptIO P pw rnd.a { inp := input } {}) := by
  simp only [runPassEncrypt, hsf, hi, hp, Bool.false_eq_true, if_false]
  generalize passEncryptIO P pw rnd.a { inp := input } {} = r
  obtain ⟨res, s, k⟩ := r
  exact streamFinish_eq w outf res s k

theorem runPassEncrypt_spec (P : Prims) (rnd : Rand) (w : World) (inf outf : Option Str) (e : Bool) :
    (∃ c, c ∈ earlyCauses ∧ runPassEncrypt P rnd w inf outf e = fail w c) ∨
    (∃ input pw, sameFile inf outf = false ∧ openInput w inf = .ok input ∧ askPass w e = .ok pw ∧
      runPassEncrypt P rnd w inf outf e = streamFinish w outf (passEncryptIO P pw rnd.a { inp := input } {})) := by
  cases hsf : sameFile inf outf with
  | true => left; exact ⟨.sameFile, by simp [earlyCauses], by simp [runPassEncrypt, hsf]⟩
  | false =>
    cases hi : openInput w inf with
    | error c =>
      left; refine ⟨c, ?_, by simp [runPassEncrypt, hsf, hi]⟩
      rw [openInput_err hi]; simp [earlyCauses]
    | ok input =>
      cases hp : askPass w e with
      | error c =>
        left; refine ⟨c, ?_, by simp [runPassEncrypt, hsf, hi, hp]⟩
        rw [askPass_err hp]; simp [earlyCauses]
      | ok pw => right; exact ⟨input, pw, rfl, rfl, rfl, runPassEncrypt_path hsf hi hp⟩

/-- `runEncrypt` once everything it needs is there -/
theorem runEncrypt_path {P : Prims} {rnd : Rand} {w : World} {inf : Option Str} {to fr : Str} {outf kr : Option Str} {e : Bool}
    {input : Bytes} {ks : List Keyring.Key} {rkey : Keyring.Key} {rpk sk spk epk : Bytes}
    (hsf : sameFile inf outf = false) (hi : openInput w inf = .ok input) (hk : openKeyring w kr = .ok ks)
    (hg : Keyring.getKey ks to = some rkey) (hd : Keyring.decodePk rkey.pk = .ok rpk)
    (hu : unlockNamed w ks fr e = .ok (sk, spk)) (he : P.pub rnd.b = some epk) :
    runEncrypt P rnd w inf to fr outf kr e =
      streamFinish w outf (keyEncryptIO P sk spk rpk rnd.b epk rnd.a { inp := input } {}) := by
  simp only [runEncrypt, hsf, hi, hk, hg, hd, hu, he, Bool.false_eq_true, if_false]
  generalize keyEncryptIO P sk spk rpk rnd.b epk rnd.a { inp := input } {} = r
  obtain ⟨res, s, k⟩ := r
  exact streamFinish_eq w outf res s k

theorem runEncrypt_spec (P : Prims) (rnd : Rand) (w : World) (inf : Option Str) (to fr : Str) (outf kr : Option Str) (e : Bool) :
    (∃ c, (c ∈ earlyCauses ∨ (c = .crypto .other ∧ P.pub rnd.b = none)) ∧ runEncrypt P rnd w inf to fr outf kr e = fail w c) ∨
    (∃ input ks rkey rpk sk spk epk, sameFile inf outf = false ∧ openInput w inf = .ok input ∧ openKeyring w kr = .ok ks ∧
      Keyring.getKey ks to = some rkey ∧ Keyring.decodePk rkey.pk = .ok rpk ∧ unlockNamed w ks fr e = .ok (sk, spk) ∧
      P.pub rnd.b = some epk ∧
      runEncrypt P rnd w inf to fr outf kr e =
        streamFinish w outf (keyEncryptIO P sk spk rpk rnd.b epk rnd.a { inp := input } {})) := by
  cases hsf : sameFile inf outf with
  | true => left; exact ⟨.sameFile, by simp [earlyCauses], by simp [runEncrypt, hsf]⟩
  | false =>
    cases hi : openInput w inf with
    | error c =>
      left; refine ⟨c, Or.inl ?_, by simp [runEncrypt, hsf, hi]⟩
      rw [openInput_err hi]; simp [earlyCauses]
    | ok input =>
      cases hk : openKeyring w kr with
      | error c =>
        left; refine ⟨c, Or.inl ?_, by simp [runEncrypt, hsf, hi, hk]⟩
        rcases openKeyring_err hk with h | h | h | h <;> simp [h, earlyCauses]
      | ok ks =>
        cases hg : Keyring.getKey ks to with
        | none => left; exact ⟨.keyNotFound, Or.inl (by simp [earlyCauses]), by simp [runEncrypt, hsf, hi, hk, hg]⟩
        | some rkey =>
          cases hd : Keyring.decodePk rkey.pk with
          | error _ => left; exact ⟨.pkDecode, Or.inl (by simp [earlyCauses]), by simp [runEncrypt, hsf, hi, hk, hg, hd]⟩
          | ok rpk =>
            cases hu : unlockNamed w ks fr e with
            | error c =>
              left; refine ⟨c, Or.inl ?_, by simp [runEncrypt, hsf, hi, hk, hg, hd, hu]⟩
              rcases unlockNamed_err hu with h | h | h | h | h <;> simp [h, earlyCauses]
            | ok kp =>
              obtain ⟨sk, spk⟩ := kp
              cases he : P.pub rnd.b with
              | none => left; exact ⟨.crypto .other, Or.inr ⟨rfl, rfl⟩, by simp [runEncrypt, hsf, hi, hk, hg, hd, hu, he]⟩
              | some epk =>
                right
                exact ⟨input, ks, rkey, rpk, sk, spk, epk, rfl, rfl, rfl, hg, hd, hu, rfl,
                  runEncrypt_path hsf hi hk hg hd hu he⟩

/-! ### the cryptographic calls as the CLI makes them (unscripted source and sink), in terms of the pure level -/

/-- where the bytes go once at least one `write`/`flush` call was made: the named file is created/truncated and holds
    exactly these bytes, or they are on stdout -/
def delivered (w : World) (outf : Option Str) (bytes : Bytes) : World × Bytes :=
  match outf with
  | some q => (w.setFile q bytes, [])
  | none => (w, bytes)

theorem deliver_of_flushed (w : World) (outf : Option Str) (k : Snk) (h : 1 ≤ k.flushes) :
    deliver w outf k = delivered w outf k.out := by
  cases outf with
  | none => rfl
  | some q => exact deliver_flushed w q k h

theorem keyDecryptIO_plain (P : Prims) (sk pk input : Bytes) :
    ∃ s' k', keyDecryptIO P sk pk { inp := input } {} = ((keyDecrypt P sk pk input).2.1, s', k', (keyDecrypt P sk pk input).2.2) ∧
      k'.out = (keyDecrypt P sk pk input).1.flatten ∧ k'.flushes = (keyDecrypt P sk pk input).1.length ∧
      ((keyDecrypt P sk pk input).1 = [] → k' = {}) ∧
      ((keyDecrypt P sk pk input).2.1 = .ok → (keyDecrypt P sk pk input).1 ≠ [] ∧ ∃ spk, (keyDecrypt P sk pk input).2.2 = some spk) := by
  rcases hIO : keyDecryptIO P sk pk { inp := input } {} with ⟨res, s', k', snd⟩
  obtain ⟨h1, h2, h3, h4, h5, h6⟩ := keyDecryptIO_calls P sk pk { inp := input } {} (Src.plain_faultFree input) Snk.plain_benign
    hIO (writes := (keyDecrypt P sk pk input).1) (pres := (keyDecrypt P sk pk input).2.1)
    (psender := (keyDecrypt P sk pk input).2.2) rfl
  exact ⟨s', k', by rw [h1, h2], by simpa using h3, by simpa using h4, h5, h6⟩

theorem passDecryptIO_plain (P : Prims) (pw input : Bytes) :
    ∃ s' k', passDecryptIO P pw { inp := input } {} = ((passDecrypt P pw input).2, s', k') ∧
      k'.out = (passDecrypt P pw input).1.flatten ∧ k'.flushes = (passDecrypt P pw input).1.length ∧
      ((passDecrypt P pw input).1 = [] → k' = {}) ∧
      ((passDecrypt P pw input).2 = .ok → (passDecrypt P pw input).1 ≠ []) := by
  rcases hIO : passDecryptIO P pw { inp := input } {} with ⟨res, s', k'⟩
  obtain ⟨h1, h3, h4, h5, h6⟩ := passDecryptIO_calls P pw { inp := input } {} (Src.plain_faultFree input) Snk.plain_benign
    hIO (writes := (passDecrypt P pw input).1) (pres := (passDecrypt P pw input).2) rfl
  exact ⟨s', k', by rw [h1], by simpa using h3, by simpa using h4, h5, h6⟩

/-- **the end of `decrypt` in terms of the pure `key_decrypt`** -/
theorem decryptFinish_pure (P : Prims) (w : World) (outf : Option Str) (ks : List Keyring.Key) (sk pk input : Bytes)
    {ws : List Bytes} {pres : Res} {psnd : Option Bytes} (hP : keyDecrypt P sk pk input = (ws, pres, psnd)) :
    (ws = [] → pres ≠ .ok ∧ decryptFinish w outf ks (keyDecryptIO P sk pk { inp := input } {}) = fail w (.crypto pres)) ∧
    (ws ≠ [] → pres ≠ .ok → decryptFinish w outf ks (keyDecryptIO P sk pk { inp := input } {}) =
      { exit := 1, world := (delivered w outf ws.flatten).1, stdout := (delivered w outf ws.flatten).2,
        err := some (.crypto pres) }) ∧
    (pres = .ok → ws ≠ [] ∧ ∃ spk, psnd = some spk ∧ decryptFinish w outf ks (keyDecryptIO P sk pk { inp := input } {}) =
      { exit := 0, world := (delivered w outf ws.flatten).1, stdout := (delivered w outf ws.flatten).2,
        sender := senderOf ks (some spk) }) := by
  obtain ⟨s', k', hIO, ho, hf, hnil, hok⟩ := keyDecryptIO_plain P sk pk input
  rw [hP] at hIO ho hf hnil hok
  simp only at hIO ho hf hnil hok
  rw [hIO]
  refine ⟨fun h => ?_, fun h hne => ?_, fun h => ?_⟩
  · have hne : pres ≠ .ok := fun h' => (hok h').1 h
    refine ⟨hne, ?_⟩
    rw [hnil h]
    simp only [decryptFinish, if_neg hne, deliver_init]
    rfl
  · have hfl : 1 ≤ k'.flushes := by
      rw [hf]; cases ws with
      | nil => exact absurd rfl h
      | cons _ _ => simp
    simp only [decryptFinish, if_neg hne, deliver_of_flushed w outf k' hfl, ho]
  · obtain ⟨hne, spk, hspk⟩ := hok h
    have hfl : 1 ≤ k'.flushes := by
      rw [hf]; cases ws with
      | nil => exact absurd rfl hne
      | cons _ _ => simp
    refine ⟨hne, spk, hspk, ?_⟩
    simp only [decryptFinish, h, if_true, deliver_of_flushed w outf k' hfl, ho, hspk]

/-- **the end of `password decrypt` in terms of the pure `pass_decrypt`** -/
theorem passDecryptFinish_pure (P : Prims) (w : World) (outf : Option Str) (pw input : Bytes)
    {ws : List Bytes} {pres : Res} (hP : passDecrypt P pw input = (ws, pres)) :
    (ws = [] → pres ≠ .ok ∧ streamFinish w outf (passDecryptIO P pw { inp := input } {}) = fail w (.crypto pres)) ∧
    (ws ≠ [] → pres ≠ .ok → streamFinish w outf (passDecryptIO P pw { inp := input } {}) =
      { exit := 1, world := (delivered w outf ws.flatten).1, stdout := (delivered w outf ws.flatten).2,
        err := some (.crypto pres) }) ∧
    (pres = .ok → ws ≠ [] ∧ streamFinish w outf (passDecryptIO P pw { inp := input } {}) =
      { exit := 0, world := (delivered w outf ws.flatten).1, stdout := (delivered w outf ws.flatten).2 }) := by
  obtain ⟨s', k', hIO, ho, hf, hnil, hok⟩ := passDecryptIO_plain P pw input
  rw [hP] at hIO ho hf hnil hok
  simp only at hIO ho hf hnil hok
  rw [hIO]
  refine ⟨fun h => ?_, fun h hne => ?_, fun h => ?_⟩
  · have hne : pres ≠ .ok := fun h' => (hok h') h
    refine ⟨hne, ?_⟩
    rw [hnil h]
    simp only [streamFinish, if_neg hne, deliver_init]
    rfl
  · have hfl : 1 ≤ k'.flushes := by
      rw [hf]; cases ws with
      | nil => exact absurd rfl h
      | cons _ _ => simp
    simp only [streamFinish, if_neg hne, deliver_of_flushed w outf k' hfl, ho]
  · have hne := hok h
    have hfl : 1 ≤ k'.flushes := by
      rw [hf]; cases ws with
      | nil => exact absurd rfl hne
      | cons _ _ => simp
    refine ⟨hne, ?_⟩
    simp only [streamFinish, h, if_true, deliver_of_flushed w outf k' hfl, ho]

open EncIO Generated in
/-- **the end of `encrypt`**: either the key exchange is refused (an all-zero DH output) and nothing at all happened, or the
    command succeeds and delivers the pure ciphertext for the read schedule of the input -/
theorem encryptFinish_pure (P : Prims) (w : World) (outf : Option Str) (s spk rs e epk pk input : Bytes) :
    ((P.dh e rs = none ∨ P.dh s rs = none) ∧
      streamFinish w outf (keyEncryptIO P s spk rs e epk pk { inp := input } {}) = fail w (.crypto .other)) ∨
    (¬ (P.dh e rs = none ∨ P.dh s rs = none) ∧
      (keyEncrypt P s spk rs e epk pk (Src.reads chunkSize { inp := input })).2 = .ok ∧
      streamFinish w outf (keyEncryptIO P s spk rs e epk pk { inp := input } {}) =
        { exit := 0, world := (delivered w outf (keyEncrypt P s spk rs e epk pk (Src.reads chunkSize { inp := input })).1).1,
          stdout := (delivered w outf (keyEncrypt P s spk rs e epk pk (Src.reads chunkSize { inp := input })).1).2 }) := by
  cases hw : Noise.writeMessage P encPrologue s spk rs e epk pk with
  | error err =>
    left
    have hdh := (Noise.writeMessage_error_iff P encPrologue s spk rs e epk pk).mp ⟨err, hw⟩
    refine ⟨hdh, ?_⟩
    rw [keyEncryptIO_error P s spk rs e epk pk _ _ hw]
    simp only [streamFinish, deliver_init]
    rfl
  | ok mh =>
    obtain ⟨msg, hh⟩ := mh
    right
    have hdh : ¬ (P.dh e rs = none ∨ P.dh s rs = none) := by
      intro h
      obtain ⟨err, he⟩ := (Noise.writeMessage_error_iff P encPrologue s spk rs e epk pk).mpr h
      rw [hw] at he; cases he
    obtain ⟨h1, h2, h3⟩ := htc_calls P.aead (P.hkdfFile pk hh) [] chunkSize gen_chunkSize_pos encPrologue msg
      { inp := input } {} (Src.plain_faultFree input) Snk.plain_benign
    rw [keyEncryptIO_ok P s spk rs e epk pk _ _ hw, keyEncrypt_ok P s spk rs e epk pk _ hw]
    refine ⟨hdh, ?_, ?_⟩
    · rw [encryptChunks_reads]
    · simp only [streamFinish, h1, if_true, deliver_of_flushed w outf _ h3, h2, List.nil_append]

open EncIO Generated in
/-- **the end of `password encrypt`**: always succeeds and delivers the pure ciphertext -/
theorem passEncryptFinish_pure (P : Prims) (w : World) (outf : Option Str) (pw salt input : Bytes) :
    (passEncrypt P pw salt (Src.reads chunkSize { inp := input })).2 = .ok ∧
    streamFinish w outf (passEncryptIO P pw salt { inp := input } {}) =
      { exit := 0, world := (delivered w outf (passEncrypt P pw salt (Src.reads chunkSize { inp := input })).1).1,
        stdout := (delivered w outf (passEncrypt P pw salt (Src.reads chunkSize { inp := input })).1).2 } := by
  obtain ⟨h1, h2, h3⟩ := htc_calls P.aead (P.kdf pw salt) encPassMagic chunkSize gen_chunkSize_pos encPassMagic salt
    { inp := input } {} (Src.plain_faultFree input) Snk.plain_benign
  rw [passEncryptIO_eq, passEncrypt_eq]
  refine ⟨?_, ?_⟩
  · rw [encryptChunks_reads]
  · simp only [streamFinish, h1, if_true, deliver_of_flushed w outf _ h3, h2, List.nil_append]

/-! ### exit status and error report agree -/

/-- exit status 0 without an error report, or exit status 1 with one -/
def Outcome.wellReported (o : Outcome) : Prop := (o.exit = 0 ∧ o.err = none) ∨ (o.exit = 1 ∧ o.err.isSome = true)

theorem wellReported_fail (w : World) (c : Err) : (fail w c).wellReported := Or.inr ⟨rfl, rfl⟩

theorem wellReported_decryptFinish (w : World) (outf : Option Str) (ks : List Keyring.Key) (r : Res × Src × Snk × Option Bytes) :
    (decryptFinish w outf ks r).wellReported := by
  unfold decryptFinish
  split
  · exact Or.inl ⟨rfl, rfl⟩
  · exact Or.inr ⟨rfl, rfl⟩

theorem wellReported_streamFinish (w : World) (outf : Option Str) (r : Res × Src × Snk) :
    (streamFinish w outf r).wellReported := by
  unfold streamFinish
  split
  · exact Or.inl ⟨rfl, rfl⟩
  · exact Or.inr ⟨rfl, rfl⟩

theorem decryptFinish_exit (w : World) (outf : Option Str) (ks : List Keyring.Key) (r : Res × Src × Snk × Option Bytes) :
    (decryptFinish w outf ks r).exit = 0 ↔ r.1 = .ok := by
  unfold decryptFinish
  split
  · rename_i h; simp [h]
  · rename_i h; simp [h]

theorem streamFinish_exit (w : World) (outf : Option Str) (r : Res × Src × Snk) :
    (streamFinish w outf r).exit = 0 ↔ r.1 = .ok := by
  unfold streamFinish
  split
  · rename_i h; simp [h]
  · rename_i h; simp [h]

theorem wellReported_run (P : Prims) (rnd : Rand) (w : World) (req : Request) : (run P rnd w req).wellReported := by
  cases req with
  | help => exact Or.inl ⟨rfl, rfl⟩
  | version => exact Or.inl ⟨rfl, rfl⟩
  | usageError => exact wellReported_fail w _
  | encrypt i t f o k e =>
    show (runEncrypt P rnd w i t f o k e).wellReported
    rcases runEncrypt_spec P rnd w i t f o k e with ⟨c, _, h⟩ | ⟨_, _, _, _, _, _, _, _, _, _, _, _, _, _, h⟩
    · rw [h]; exact wellReported_fail w c
    · rw [h]; exact wellReported_streamFinish _ _ _
  | decrypt i t o k e =>
    show (runDecrypt P w i t o k e).wellReported
    rcases runDecrypt_spec P w i t o k e with ⟨c, _, h⟩ | ⟨_, _, _, _, _, _, _, _, h⟩
    · rw [h]; exact wellReported_fail w c
    · rw [h]; exact wellReported_decryptFinish _ _ _ _
  | passEncrypt i o e =>
    show (runPassEncrypt P rnd w i o e).wellReported
    rcases runPassEncrypt_spec P rnd w i o e with ⟨c, _, h⟩ | ⟨_, _, _, _, _, h⟩
    · rw [h]; exact wellReported_fail w c
    · rw [h]; exact wellReported_streamFinish _ _ _
  | passDecrypt i o e =>
    show (runPassDecrypt P w i o e).wellReported
    rcases runPassDecrypt_spec P w i o e with ⟨c, _, h⟩ | ⟨_, _, _, _, _, h⟩
    · rw [h]; exact wellReported_fail w c
    · rw [h]; exact wellReported_streamFinish _ _ _
  | keyGen o e =>
    show (runKeyGen P rnd w o e).wellReported
    unfold runKeyGen
    split
    · exact wellReported_fail w _
    · split
      · exact wellReported_fail w _
      · split
        · exact wellReported_fail w _
        · split
          · exact wellReported_fail w _
          · split
            · split <;> exact Or.inl ⟨rfl, rfl⟩
            · exact Or.inl ⟨rfl, rfl⟩
  | changePass s e =>
    show (runChangePass rnd w s e).wellReported
    unfold runChangePass
    split
    · exact wellReported_fail w _
    · split
      · exact wellReported_fail w _
      · split
        · exact wellReported_fail w _
        · split
          · exact wellReported_fail w _
          · exact Or.inl ⟨rfl, rfl⟩
  | extractPub s e =>
    show (runExtractPub P w s e).wellReported
    unfold runExtractPub
    split
    · exact wellReported_fail w _
    · split
      · exact wellReported_fail w _
      · split
        · exact wellReported_fail w _
        · split
          · exact wellReported_fail w _
          · exact Or.inl ⟨rfl, rfl⟩

/-! ### the sender line -/

theorem getNameFromKey_some {ks : List Keyring.Key} {s n : Str} (h : Keyring.getNameFromKey ks s = some n) :
    ∃ key ∈ ks, key.pk = s ∧ key.name = n := by
  unfold Keyring.getNameFromKey at h
  cases hf : ks.find? (fun x => x.pk == s) with
  | none => rw [hf] at h; simp at h
  | some key =>
    rw [hf] at h
    simp only [Option.map_some, Option.some.injEq] at h
    exact ⟨key, List.mem_of_find?_eq_some hf, by simpa using List.find?_some hf, h⟩

theorem getNameFromKey_none {ks : List Keyring.Key} {s : Str} (h : Keyring.getNameFromKey ks s = none) :
    ∀ key ∈ ks, key.pk ≠ s := by
  unfold Keyring.getNameFromKey at h
  simp only [Option.map_eq_none_iff, List.find?_eq_none] at h
  intro key hk heq
  exact h key hk (by simp [heq])

/-- the sender line names a keyring entry whose public-key string is the encoding of the authenticated sender key, and
    otherwise shows that encoding -/
theorem senderOf_spec (ks : List Keyring.Key) (spk : Bytes) :
    (∃ key ∈ ks, key.pk = Keyring.encodePk spk ∧ senderOf ks (some spk) = some (Sum.inl key.name)) ∨
    ((∀ key ∈ ks, key.pk ≠ Keyring.encodePk spk) ∧ senderOf ks (some spk) = some (Sum.inr (Keyring.encodePk spk))) := by
  cases h : Keyring.getNameFromKey ks (Keyring.encodePk spk) with
  | none => right; exact ⟨getNameFromKey_none h, by simp [senderOf, h]⟩
  | some n =>
    left
    obtain ⟨key, hk, h1, h2⟩ := getNameFromKey_some h
    exact ⟨key, hk, h1, by simp [senderOf, h, h2]⟩

/-! ### wiring: where the input comes from, where the keyring path comes from, where the output goes -/

/-- same exit status, error class, sender line, stdout bytes, file system and environment -/
def sameResult (o o' : Outcome) : Prop :=
  o'.exit = o.exit ∧ o'.err = o.err ∧ o'.sender = o.sender ∧ o'.stdout = o.stdout ∧
  o'.world.files = o.world.files ∧ o'.world.env = o.world.env

theorem sameResult_fail (w w' : World) (c : Err) (hf : w'.files = w.files) (he : w'.env = w.env) :
    sameResult (fail w c) (fail w' c) := ⟨rfl, rfl, rfl, rfl, hf, he⟩

theorem deliver_congr (w w' : World) (outf : Option Str) (k : Snk) (hf : w'.files = w.files) (he : w'.env = w.env) :
    (deliver w' outf k).2 = (deliver w outf k).2 ∧ (deliver w' outf k).1.files = (deliver w outf k).1.files ∧
    (deliver w' outf k).1.env = (deliver w outf k).1.env := by
  cases outf with
  | none => exact ⟨rfl, hf, he⟩
  | some q =>
    simp only [deliver]
    split
    · exact ⟨rfl, hf, he⟩
    · exact ⟨rfl, by simp only [World.setFile, hf], he⟩

theorem sameResult_decryptFinish (w w' : World) (outf : Option Str) (ks : List Keyring.Key) (r : Res × Src × Snk × Option Bytes)
    (hf : w'.files = w.files) (he : w'.env = w.env) :
    sameResult (decryptFinish w outf ks r) (decryptFinish w' outf ks r) := by
  obtain ⟨h1, h2, h3⟩ := deliver_congr w w' outf r.2.2.1 hf he
  unfold decryptFinish
  split
  · exact ⟨rfl, rfl, rfl, h1, h2, h3⟩
  · exact ⟨rfl, rfl, rfl, h1, h2, h3⟩

theorem sameResult_streamFinish (w w' : World) (outf : Option Str) (r : Res × Src × Snk)
    (hf : w'.files = w.files) (he : w'.env = w.env) :
    sameResult (streamFinish w outf r) (streamFinish w' outf r) := by
  obtain ⟨h1, h2, h3⟩ := deliver_congr w w' outf r.2.2 hf he
  unfold streamFinish
  split
  · exact ⟨rfl, rfl, rfl, h1, h2, h3⟩
  · exact ⟨rfl, rfl, rfl, h1, h2, h3⟩

theorem openKeyring_congr (w w' : World) (kr : Option Str) (hf : w'.files = w.files) (he : w'.env = w.env) :
    openKeyring w' kr = openKeyring w kr := by
  simp only [openKeyring, World.getenv, World.file, hf, he]

theorem askPass_congr (w w' : World) (b : Bool) (v : String) (he : w'.env = w.env) : askPass w' b v = askPass w b v := by
  simp only [askPass, World.getenv, he]

theorem unlockNamed_congr (w w' : World) (ks : List Keyring.Key) (n : Str) (b : Bool) (he : w'.env = w.env) :
    unlockNamed w' ks n b = unlockNamed w ks n b := by
  simp only [unlockNamed, askPass_congr w w' b _ he]

/-- **`decrypt` only sees the input bytes**: two worlds with the same files and environment, two ways of naming the input
    that yield the same bytes (or the same failure) and the same same-file verdict ⇒ same result -/
theorem runDecrypt_congr_input (P : Prims) (w w' : World) (inf inf' : Option Str) (to : Str) (outf kr : Option Str) (e : Bool)
    (hf : w'.files = w.files) (he : w'.env = w.env) (hsf : sameFile inf' outf = sameFile inf outf)
    (hin : openInput w' inf' = openInput w inf) :
    sameResult (runDecrypt P w inf to outf kr e) (runDecrypt P w' inf' to outf kr e) := by
  have hkr := openKeyring_congr w w' kr hf he
  cases hs : sameFile inf outf with
  | true =>
    have h1 : runDecrypt P w inf to outf kr e = fail w .sameFile := by simp [runDecrypt, hs]
    have h2 : runDecrypt P w' inf' to outf kr e = fail w' .sameFile := by simp [runDecrypt, hsf, hs]
    rw [h1, h2]; exact sameResult_fail w w' _ hf he
  | false =>
    rw [hs] at hsf
    cases hi : openInput w inf with
    | error c =>
      have h1 : runDecrypt P w inf to outf kr e = fail w c := by simp [runDecrypt, hs, hi]
      have h2 : runDecrypt P w' inf' to outf kr e = fail w' c := by simp [runDecrypt, hsf, hin, hi]
      rw [h1, h2]; exact sameResult_fail w w' _ hf he
    | ok input =>
      cases hk : openKeyring w kr with
      | error c =>
        have h1 : runDecrypt P w inf to outf kr e = fail w c := by simp [runDecrypt, hs, hi, hk]
        have h2 : runDecrypt P w' inf' to outf kr e = fail w' c := by simp [runDecrypt, hsf, hin, hi, hkr, hk]
        rw [h1, h2]; exact sameResult_fail w w' _ hf he
      | ok ks =>
        have hun := unlockNamed_congr w w' ks to e he
        cases hu : unlockNamed w ks to e with
        | error c =>
          have h1 : runDecrypt P w inf to outf kr e = fail w c := by simp [runDecrypt, hs, hi, hk, hu]
          have h2 : runDecrypt P w' inf' to outf kr e = fail w' c := by simp [runDecrypt, hsf, hin, hi, hkr, hk, hun, hu]
          rw [h1, h2]; exact sameResult_fail w w' _ hf he
        | ok kp =>
          obtain ⟨sk, pk⟩ := kp
          rw [runDecrypt_path hs hi hk hu,
            runDecrypt_path hsf (hin.trans hi) (hkr.trans hk) (hun.trans hu)]
          exact sameResult_decryptFinish w w' outf ks _ hf he

theorem runPassDecrypt_congr_input (P : Prims) (w w' : World) (inf inf' outf : Option Str) (e : Bool)
    (hf : w'.files = w.files) (he : w'.env = w.env) (hsf : sameFile inf' outf = sameFile inf outf)
    (hin : openInput w' inf' = openInput w inf) :
    sameResult (runPassDecrypt P w inf outf e) (runPassDecrypt P w' inf' outf e) := by
  have hap := askPass_congr w w' e "KESTREL_PASSWORD" he
  cases hs : sameFile inf outf with
  | true =>
    have h1 : runPassDecrypt P w inf outf e = fail w .sameFile := by simp [runPassDecrypt, hs]
    have h2 : runPassDecrypt P w' inf' outf e = fail w' .sameFile := by simp [runPassDecrypt, hsf, hs]
    rw [h1, h2]; exact sameResult_fail w w' _ hf he
  | false =>
    rw [hs] at hsf
    cases hi : openInput w inf with
    | error c =>
      have h1 : runPassDecrypt P w inf outf e = fail w c := by simp [runPassDecrypt, hs, hi]
      have h2 : runPassDecrypt P w' inf' outf e = fail w' c := by simp [runPassDecrypt, hsf, hin, hi]
      rw [h1, h2]; exact sameResult_fail w w' _ hf he
    | ok input =>
      cases hp : askPass w e with
      | error c =>
        have h1 : runPassDecrypt P w inf outf e = fail w c := by simp [runPassDecrypt, hs, hi, hp]
        have h2 : runPassDecrypt P w' inf' outf e = fail w' c := by simp [runPassDecrypt, hsf, hin, hi, hap, hp]
        rw [h1, h2]; exact sameResult_fail w w' _ hf he
      | ok pw =>
        rw [runPassDecrypt_path hs hi hp, runPassDecrypt_path hsf (hin.trans hi) (hap.trans hp)]
        exact sameResult_streamFinish w w' outf _ hf he

theorem runPassEncrypt_congr_input (P : Prims) (rnd : Rand) (w w' : World) (inf inf' outf : Option Str) (e : Bool)
    (hf : w'.files = w.files) (he : w'.env = w.env) (hsf : sameFile inf' outf = sameFile inf outf)
    (hin : openInput w' inf' = openInput w inf) :
    sameResult (runPassEncrypt P rnd w inf outf e) (runPassEncrypt P rnd w' inf' outf e) := by
  have hap := askPass_congr w w' e "KESTREL_PASSWORD" he
  cases hs : sameFile inf outf with
  | true =>
    have h1 : runPassEncrypt P rnd w inf outf e = fail w .sameFile := by simp [runPassEncrypt, hs]
    have h2 : runPassEncrypt P rnd w' inf' outf e = fail w' .sameFile := by simp [runPassEncrypt, hsf, hs]
    rw [h1, h2]; exact sameResult_fail w w' _ hf he
  | false =>
    rw [hs] at hsf
    cases hi : openInput w inf with
    | error c =>
      have h1 : runPassEncrypt P rnd w inf outf e = fail w c := by simp [runPassEncrypt, hs, hi]
      have h2 : runPassEncrypt P rnd w' inf' outf e = fail w' c := by simp [runPassEncrypt, hsf, hin, hi]
      rw [h1, h2]; exact sameResult_fail w w' _ hf he
    | ok input =>
      cases hp : askPass w e with
      | error c =>
        have h1 : runPassEncrypt P rnd w inf outf e = fail w c := by simp [runPassEncrypt, hs, hi, hp]
        have h2 : runPassEncrypt P rnd w' inf' outf e = fail w' c := by simp [runPassEncrypt, hsf, hin, hi, hap, hp]
        rw [h1, h2]; exact sameResult_fail w w' _ hf he
      | ok pw =>
        rw [runPassEncrypt_path hs hi hp, runPassEncrypt_path hsf (hin.trans hi) (hap.trans hp)]
        exact sameResult_streamFinish w w' outf _ hf he

theorem runEncrypt_congr_input (P : Prims) (rnd : Rand) (w w' : World) (inf inf' : Option Str) (to fr : Str)
    (outf kr : Option Str) (e : Bool)
    (hf : w'.files = w.files) (he : w'.env = w.env) (hsf : sameFile inf' outf = sameFile inf outf)
    (hin : openInput w' inf' = openInput w inf) :
    sameResult (runEncrypt P rnd w inf to fr outf kr e) (runEncrypt P rnd w' inf' to fr outf kr e) := by
  have hkr := openKeyring_congr w w' kr hf he
  cases hs : sameFile inf outf with
  | true =>
    have h1 : runEncrypt P rnd w inf to fr outf kr e = fail w .sameFile := by simp [runEncrypt, hs]
    have h2 : runEncrypt P rnd w' inf' to fr outf kr e = fail w' .sameFile := by simp [runEncrypt, hsf, hs]
    rw [h1, h2]; exact sameResult_fail w w' _ hf he
  | false =>
    rw [hs] at hsf
    cases hi : openInput w inf with
    | error c =>
      have h1 : runEncrypt P rnd w inf to fr outf kr e = fail w c := by simp [runEncrypt, hs, hi]
      have h2 : runEncrypt P rnd w' inf' to fr outf kr e = fail w' c := by simp [runEncrypt, hsf, hin, hi]
      rw [h1, h2]; exact sameResult_fail w w' _ hf he
    | ok input =>
      cases hk : openKeyring w kr with
      | error c =>
        have h1 : runEncrypt P rnd w inf to fr outf kr e = fail w c := by simp [runEncrypt, hs, hi, hk]
        have h2 : runEncrypt P rnd w' inf' to fr outf kr e = fail w' c := by simp [runEncrypt, hsf, hin, hi, hkr, hk]
        rw [h1, h2]; exact sameResult_fail w w' _ hf he
      | ok ks =>
        cases hg : Keyring.getKey ks to with
        | none =>
          have h1 : runEncrypt P rnd w inf to fr outf kr e = fail w .keyNotFound := by simp [runEncrypt, hs, hi, hk, hg]
          have h2 : runEncrypt P rnd w' inf' to fr outf kr e = fail w' .keyNotFound := by
            simp [runEncrypt, hsf, hin, hi, hkr, hk, hg]
          rw [h1, h2]; exact sameResult_fail w w' _ hf he
        | some rkey =>
          cases hd : Keyring.decodePk rkey.pk with
          | error _ =>
            have h1 : runEncrypt P rnd w inf to fr outf kr e = fail w .pkDecode := by simp [runEncrypt, hs, hi, hk, hg, hd]
            have h2 : runEncrypt P rnd w' inf' to fr outf kr e = fail w' .pkDecode := by
              simp [runEncrypt, hsf, hin, hi, hkr, hk, hg, hd]
            rw [h1, h2]; exact sameResult_fail w w' _ hf he
          | ok rpk =>
            have hun := unlockNamed_congr w w' ks fr e he
            cases hu : unlockNamed w ks fr e with
            | error c =>
              have h1 : runEncrypt P rnd w inf to fr outf kr e = fail w c := by simp [runEncrypt, hs, hi, hk, hg, hd, hu]
              have h2 : runEncrypt P rnd w' inf' to fr outf kr e = fail w' c := by
                simp [runEncrypt, hsf, hin, hi, hkr, hk, hg, hd, hun, hu]
              rw [h1, h2]; exact sameResult_fail w w' _ hf he
            | ok kp =>
              obtain ⟨sk, spk⟩ := kp
              cases hep : P.pub rnd.b with
              | none =>
                have h1 : runEncrypt P rnd w inf to fr outf kr e = fail w (.crypto .other) := by
                  simp [runEncrypt, hs, hi, hk, hg, hd, hu, hep]
                have h2 : runEncrypt P rnd w' inf' to fr outf kr e = fail w' (.crypto .other) := by
                  simp [runEncrypt, hsf, hin, hi, hkr, hk, hg, hd, hun, hu, hep]
                rw [h1, h2]; exact sameResult_fail w w' _ hf he
              | some epk =>
                rw [runEncrypt_path hs hi hk hg hd hu hep,
                  runEncrypt_path hsf (hin.trans hi) (hkr.trans hk) hg hd (hun.trans hu) hep]
                exact sameResult_streamFinish w w' outf _ hf he

/-- **`decrypt` and the output option.** There is one sink `k` — empty if the command fails early, otherwise the sink of the
    library call — one exit status, error class and sender line such that for EVERY admissible `-o` choice (none, or any file
    other than the input) the command's effect is `deliver w outf k`. -/
theorem runDecrypt_outf (P : Prims) (w : World) (inf : Option Str) (to : Str) (kr : Option Str) (e : Bool) :
    ∃ (k : Snk) (x : Nat) (er : Option Err) (sd : Option (Sum Str Str)),
      (∀ outf, sameFile inf outf = false → runDecrypt P w inf to outf kr e =
        { exit := x, world := (deliver w outf k).1, stdout := (deliver w outf k).2, err := er, sender := sd }) ∧
      (∀ input ks sk pk, openInput w inf = .ok input → openKeyring w kr = .ok ks → unlockNamed w ks to e = .ok (sk, pk) →
        k = (keyDecryptIO P sk pk { inp := input } {}).2.2.1) := by
  have early : ∀ c, (∀ outf, sameFile inf outf = false → runDecrypt P w inf to outf kr e = fail w c) →
      ∃ (k : Snk) (x : Nat) (er : Option Err) (sd : Option (Sum Str Str)),
        (∀ outf, sameFile inf outf = false → runDecrypt P w inf to outf kr e =
          { exit := x, world := (deliver w outf k).1, stdout := (deliver w outf k).2, err := er, sender := sd }) := by
    intro c hc
    refine ⟨{}, 1, some c, none, fun outf hsf => ?_⟩
    rw [hc outf hsf, deliver_init]; rfl
  cases hi : openInput w inf with
  | error c =>
    obtain ⟨k, x, er, sd, h⟩ := early c (fun outf hsf => by simp [runDecrypt, hsf, hi])
    exact ⟨k, x, er, sd, h, fun _ _ _ _ h' => by simp at h'⟩
  | ok input =>
    cases hk : openKeyring w kr with
    | error c =>
      obtain ⟨k, x, er, sd, h⟩ := early c (fun outf hsf => by simp [runDecrypt, hsf, hi, hk])
      exact ⟨k, x, er, sd, h, fun _ _ _ _ _ h' => by simp at h'⟩
    | ok ks =>
      cases hu : unlockNamed w ks to e with
      | error c =>
        obtain ⟨k, x, er, sd, h⟩ := early c (fun outf hsf => by simp [runDecrypt, hsf, hi, hk, hu])
        refine ⟨k, x, er, sd, h, fun _ ks' _ _ _ h1 h2 => ?_⟩
        simp only [Except.ok.injEq] at h1; subst h1
        rw [hu] at h2; simp at h2
      | ok kp =>
        obtain ⟨sk, pk⟩ := kp
        by_cases hr : (keyDecryptIO P sk pk { inp := input } {}).1 = .ok
        · refine ⟨(keyDecryptIO P sk pk { inp := input } {}).2.2.1, 0, none,
            senderOf ks (keyDecryptIO P sk pk { inp := input } {}).2.2.2, fun outf hsf => ?_, ?_⟩
          · rw [runDecrypt_path hsf hi hk hu]; simp only [decryptFinish, if_pos hr]
          · intro input' ks' sk' pk' h1 h2 h3
            simp only [Except.ok.injEq] at h1 h2; subst h1 h2
            rw [hu] at h3; simp only [Except.ok.injEq, Prod.mk.injEq] at h3
            obtain ⟨rfl, rfl⟩ := h3; rfl
        · refine ⟨(keyDecryptIO P sk pk { inp := input } {}).2.2.1, 1,
            some (.crypto (keyDecryptIO P sk pk { inp := input } {}).1), none, fun outf hsf => ?_, ?_⟩
          · rw [runDecrypt_path hsf hi hk hu]; simp only [decryptFinish, if_neg hr]
          · intro input' ks' sk' pk' h1 h2 h3
            simp only [Except.ok.injEq] at h1 h2; subst h1 h2
            rw [hu] at h3; simp only [Except.ok.injEq, Prod.mk.injEq] at h3
            obtain ⟨rfl, rfl⟩ := h3; rfl

/-- the same for the three other stream commands, whose shape is: preparatory steps that do not look at `-o`, then
    `streamFinish` -/
theorem outf_of_spec (w : World) (inf : Option Str) (f : Option Str → Outcome)
    (h : (∃ c, ∀ outf, sameFile inf outf = false → f outf = fail w c) ∨
         (∃ r : Res × Src × Snk, ∀ outf, sameFile inf outf = false → f outf = streamFinish w outf r)) :
    ∃ (k : Snk) (x : Nat) (er : Option Err),
      ∀ outf, sameFile inf outf = false → f outf =
        { exit := x, world := (deliver w outf k).1, stdout := (deliver w outf k).2, err := er } := by
  rcases h with ⟨c, hc⟩ | ⟨r, hr⟩
  · refine ⟨{}, 1, some c, fun outf hsf => ?_⟩
    rw [hc outf hsf, deliver_init]; rfl
  · by_cases hok : r.1 = .ok
    · exact ⟨r.2.2, 0, none, fun outf hsf => by rw [hr outf hsf]; simp only [streamFinish, if_pos hok]⟩
    · exact ⟨r.2.2, 1, some (.crypto r.1), fun outf hsf => by rw [hr outf hsf]; simp only [streamFinish, if_neg hok]⟩

theorem runPassDecrypt_outf (P : Prims) (w : World) (inf : Option Str) (e : Bool) :
    ∃ (k : Snk) (x : Nat) (er : Option Err),
      ∀ outf, sameFile inf outf = false → runPassDecrypt P w inf outf e =
        { exit := x, world := (deliver w outf k).1, stdout := (deliver w outf k).2, err := er } := by
  apply outf_of_spec
  cases hi : openInput w inf with
  | error c => left; exact ⟨c, fun outf hsf => by simp [runPassDecrypt, hsf, hi]⟩
  | ok input =>
    cases hp : askPass w e with
    | error c => left; exact ⟨c, fun outf hsf => by simp [runPassDecrypt, hsf, hi, hp]⟩
    | ok pw => right; exact ⟨_, fun outf hsf => runPassDecrypt_path hsf hi hp⟩

theorem runPassEncrypt_outf (P : Prims) (rnd : Rand) (w : World) (inf : Option Str) (e : Bool) :
    ∃ (k : Snk) (x : Nat) (er : Option Err),
      ∀ outf, sameFile inf outf = false → runPassEncrypt P rnd w inf outf e =
        { exit := x, world := (deliver w outf k).1, stdout := (deliver w outf k).2, err := er } := by
  apply outf_of_spec
  cases hi : openInput w inf with
  | error c => left; exact ⟨c, fun outf hsf => by simp [runPassEncrypt, hsf, hi]⟩
  | ok input =>
    cases hp : askPass w e with
    | error c => left; exact ⟨c, fun outf hsf => by simp [runPassEncrypt, hsf, hi, hp]⟩
    | ok pw => right; exact ⟨_, fun outf hsf => runPassEncrypt_path hsf hi hp⟩

theorem runEncrypt_outf (P : Prims) (rnd : Rand) (w : World) (inf : Option Str) (to fr : Str) (kr : Option Str) (e : Bool) :
    ∃ (k : Snk) (x : Nat) (er : Option Err),
      ∀ outf, sameFile inf outf = false → runEncrypt P rnd w inf to fr outf kr e =
        { exit := x, world := (deliver w outf k).1, stdout := (deliver w outf k).2, err := er } := by
  apply outf_of_spec
  cases hi : openInput w inf with
  | error c => left; exact ⟨c, fun outf hsf => by simp [runEncrypt, hsf, hi]⟩
  | ok input =>
    cases hk : openKeyring w kr with
    | error c => left; exact ⟨c, fun outf hsf => by simp [runEncrypt, hsf, hi, hk]⟩
    | ok ks =>
      cases hg : Keyring.getKey ks to with
      | none => left; exact ⟨.keyNotFound, fun outf hsf => by simp [runEncrypt, hsf, hi, hk, hg]⟩
      | some rkey =>
        cases hd : Keyring.decodePk rkey.pk with
        | error _ => left; exact ⟨.pkDecode, fun outf hsf => by simp [runEncrypt, hsf, hi, hk, hg, hd]⟩
        | ok rpk =>
          cases hu : unlockNamed w ks fr e with
          | error c => left; exact ⟨c, fun outf hsf => by simp [runEncrypt, hsf, hi, hk, hg, hd, hu]⟩
          | ok kp =>
            obtain ⟨sk, spk⟩ := kp
            cases hep : P.pub rnd.b with
            | none => left; exact ⟨.crypto .other, fun outf hsf => by simp [runEncrypt, hsf, hi, hk, hg, hd, hu, hep]⟩
            | some epk => right; exact ⟨_, fun outf hsf => runEncrypt_path hsf hi hk hg hd hu hep⟩

/-! ## §C  getopts: rendering a request as an argument vector, and parsing it back -/

/-- how a request is spelled -/
structure Style where
  longNames : Bool      -- `--to` vs `-t` (options without a short name are always long)
  alias : Bool          -- `enc` / `dec` / `pass` / `gen` vs the full command word
  eqForm : Bool         -- `--to=bob` vs `--to bob`
deriving DecidableEq, Repr

/-- the option token: `--long`, or `-c` when short names are asked for and the option has one -/
def optTok (st : Style) (o : OptSpec) : Str :=
  if st.longNames then '-' :: '-' :: o.long
  else match o.short with
    | some c => ['-', c]
    | none => '-' :: '-' :: o.long

/-- `["--to","bob"]` / `["-t","bob"]` / `["--to=bob"]` / `["-t=bob"]`; a flag (`v = none`): `["--env-pass"]` -/
def renderOpt (st : Style) (o : OptSpec) (v : Option Str) : List Str :=
  match v with
  | none => [optTok st o]
  | some v => if st.eqForm then [optTok st o ++ '=' :: v] else [optTok st o, v]

def renderOptional (st : Style) (o : OptSpec) : Option Str → List Str
  | none => []
  | some v => renderOpt st o (some v)

def renderFlag (st : Style) (o : OptSpec) (b : Bool) : List Str := if b then renderOpt st o none else []

def word (st : Style) (full short : String) : Str := if st.alias then str short else str full

/-- argv WITHOUT the program name; the layout of the USAGE text of main.rs: command, input file, then the options in the
    order `-t -f -o -k --env-pass` -/
def render (st : Style) : Request → List Str
  | .help => [str "--help"]
  | .version => [if st.longNames then str "--version" else str "-v"]
  | .usageError => [str "?"]
  | .encrypt inf to fr outf kr e =>
    word st "encrypt" "enc" :: (inf.toList ++ (renderOpt st optT (some to) ++ (renderOpt st optF (some fr) ++
      (renderOptional st optO outf ++ (renderOptional st optK kr ++ (renderFlag st optE e ++ []))))))
  | .decrypt inf to outf kr e =>
    word st "decrypt" "dec" :: (inf.toList ++ (renderOpt st optT (some to) ++
      (renderOptional st optO outf ++ (renderOptional st optK kr ++ (renderFlag st optE e ++ [])))))
  | .keyGen outf e => str "key" :: word st "generate" "gen" :: (renderOptional st optO outf ++ (renderFlag st optE e ++ []))
  | .changePass sk e => str "key" :: str "change-pass" :: sk :: (renderFlag st optE e ++ [])
  | .extractPub sk e => str "key" :: str "extract-pub" :: sk :: (renderFlag st optE e ++ [])
  | .passEncrypt inf outf e =>
    word st "password" "pass" :: word st "encrypt" "enc" :: (inf.toList ++ (renderOptional st optO outf ++ (renderFlag st optE e ++ [])))
  | .passDecrypt inf outf e =>
    word st "password" "pass" :: word st "decrypt" "dec" :: (inf.toList ++ (renderOptional st optO outf ++ (renderFlag st optE e ++ [])))

/-- an option value must not be a help request (main.rs prints the help text if `-h` / `--help` occurs ANYWHERE in argv);
    anything else is fine: a leading '-', an embedded '=', the empty string -/
def valOk (v : Str) : Prop := v ≠ str "-h" ∧ v ≠ str "--help"
def optValOk (o : Option Str) : Prop := ∀ v, o = some v → valOk v
/-- a free argument must not look like an option -/
def freeOk (o : Option Str) : Prop := ∀ f, o = some f → isArg f = false

/-- the side conditions under which a request survives rendering and parsing -/
def Renderable : Request → Prop
  | .help | .version | .usageError => True
  | .encrypt inf to fr outf kr _ => freeOk inf ∧ valOk to ∧ valOk fr ∧ optValOk outf ∧ optValOk kr
  | .decrypt inf to outf kr _ => freeOk inf ∧ valOk to ∧ optValOk outf ∧ optValOk kr
  | .keyGen outf _ => optValOk outf
  | .changePass sk _ => isArg sk = false
  | .extractPub sk _ => isArg sk = false
  | .passEncrypt inf outf _ => freeOk inf ∧ optValOk outf
  | .passDecrypt inf outf _ => freeOk inf ∧ optValOk outf

/-! ### `splitEq` -/

theorem splitEq_noeq : ∀ (a : Str), '=' ∉ a → splitEq a = (a, none)
  | [], _ => rfl
  | c :: r, h => by
    have hc : c ≠ '=' := fun h' => h (by simp [h'])
    have hr : '=' ∉ r := fun h' => h (List.mem_cons_of_mem _ h')
    simp [splitEq, hc, splitEq_noeq r hr]

/-- the `=` form splits at the FIRST '=': the value may contain further '=' characters -/
theorem splitEq_append : ∀ (a v : Str), '=' ∉ a → splitEq (a ++ '=' :: v) = (a, some v)
  | [], v, _ => by simp [splitEq]
  | c :: r, v, h => by
    have hc : c ≠ '=' := fun h' => h (by simp [h'])
    have hr : '=' ∉ r := fun h' => h (List.mem_cons_of_mem _ h')
    simp [splitEq, hc, splitEq_append r v hr]

/-! ### one step of the scanning loop -/

/-- the option name part of an argument: one or two leading dashes removed -/
def dashTail (cur : Str) : Str :=
  match cur with
  | '-' :: '-' :: t => t
  | _ :: t => t
  | [] => []

/-- what the loop does with an option-like argument whose name part splits into `nm` -/
def scanStep (opts : List OptSpec) (fuel : Nat) (rest : List Str) (m : Matches) (nm : Str × Option Str) : Option Matches :=
  match findOpt opts nm.1 with
  | none => none
  | some id =>
    match opts[id]? with
    | none => none
    | some o =>
      if o.hasArg then
        match nm.2 with
        | some v => scan opts fuel rest { m with vals := m.vals ++ [(id, some v)] }
        | none =>
          match rest with
          | v :: rest' => scan opts fuel rest' { m with vals := m.vals ++ [(id, some v)] }
          | [] => none
      else
        match nm.2 with
        | some _ => none
        | none => scan opts fuel rest { m with vals := m.vals ++ [(id, none)] }

theorem scan_succ_cons (opts : List OptSpec) (fuel : Nat) (cur : Str) (rest : List Str) (m : Matches) :
    scan opts (fuel+1) (cur :: rest) m =
      if !isArg cur then scan opts fuel rest { m with free := m.free ++ [cur] }
      else if cur = str "--" then some { m with free := m.free ++ rest }
      else scanStep opts fuel rest m (splitEq (dashTail cur)) := rfl

theorem scan_free (opts : List OptSpec) (fuel : Nat) (cur : Str) (rest : List Str) (m : Matches) (h : isArg cur = false) :
    scan opts (fuel+1) (cur :: rest) m = scan opts fuel rest { m with free := m.free ++ [cur] } := by
  rw [scan_succ_cons]; simp [h]

theorem scan_opt_eq (opts : List OptSpec) (fuel : Nat) (cur : Str) (rest : List Str) (m : Matches)
    {name v : Str} {id : Nat} {o : OptSpec}
    (h1 : isArg cur = true) (h2 : cur ≠ str "--") (h3 : splitEq (dashTail cur) = (name, some v))
    (h4 : findOpt opts name = some id) (h5 : opts[id]? = some o) (h6 : o.hasArg = true) :
    scan opts (fuel+1) (cur :: rest) m = scan opts fuel rest { m with vals := m.vals ++ [(id, some v)] } := by
  rw [scan_succ_cons]
  simp only [h1, Bool.not_true, Bool.false_eq_true, if_false, if_neg h2, h3, scanStep, h4, h5, h6, if_true]

theorem scan_opt_sep (opts : List OptSpec) (fuel : Nat) (cur v : Str) (rest : List Str) (m : Matches)
    {name : Str} {id : Nat} {o : OptSpec}
    (h1 : isArg cur = true) (h2 : cur ≠ str "--") (h3 : splitEq (dashTail cur) = (name, none))
    (h4 : findOpt opts name = some id) (h5 : opts[id]? = some o) (h6 : o.hasArg = true) :
    scan opts (fuel+1) (cur :: v :: rest) m = scan opts fuel rest { m with vals := m.vals ++ [(id, some v)] } := by
  rw [scan_succ_cons]
  simp only [h1, Bool.not_true, Bool.false_eq_true, if_false, if_neg h2, h3, scanStep, h4, h5, h6, if_true]

theorem scan_flag (opts : List OptSpec) (fuel : Nat) (cur : Str) (rest : List Str) (m : Matches)
    {name : Str} {id : Nat} {o : OptSpec}
    (h1 : isArg cur = true) (h2 : cur ≠ str "--") (h3 : splitEq (dashTail cur) = (name, none))
    (h4 : findOpt opts name = some id) (h5 : opts[id]? = some o) (h6 : o.hasArg = false) :
    scan opts (fuel+1) (cur :: rest) m = scan opts fuel rest { m with vals := m.vals ++ [(id, none)] } := by
  rw [scan_succ_cons]
  simp only [h1, Bool.not_true, Bool.false_eq_true, if_false, if_neg h2, h3, scanStep, h4, h5, h6]

theorem scan_nil (opts : List OptSpec) (fuel : Nat) (m : Matches) : scan opts fuel [] m = some m := by
  cases fuel <;> rfl

/-! ### scanning a rendered block -/

/-- with enough fuel, scanning `args` from `m` continues as scanning `rest` from `m'` (with enough fuel) -/
def ScanTo (opts : List OptSpec) (args : List Str) (m : Matches) (rest : List Str) (m' : Matches) : Prop :=
  ∀ fuel, args.length < fuel → ∃ fuel', rest.length < fuel' ∧ scan opts fuel args m = scan opts fuel' rest m'

theorem ScanTo.refl (opts : List OptSpec) (args : List Str) (m : Matches) : ScanTo opts args m args m :=
  fun fuel h => ⟨fuel, h, rfl⟩

theorem ScanTo.trans {opts : List OptSpec} {a b c : List Str} {m1 m2 m3 : Matches}
    (h1 : ScanTo opts a m1 b m2) (h2 : ScanTo opts b m2 c m3) : ScanTo opts a m1 c m3 := by
  intro fuel hf
  obtain ⟨f1, hf1, e1⟩ := h1 fuel hf
  obtain ⟨f2, hf2, e2⟩ := h2 f1 hf1
  exact ⟨f2, hf2, e1.trans e2⟩

theorem ScanTo.done {opts : List OptSpec} {args : List Str} {m m' : Matches} (h : ScanTo opts args m [] m') :
    scan opts (args.length + 1) args m = some m' := by
  obtain ⟨f, _, e⟩ := h (args.length + 1) (Nat.lt_succ_self _)
  rw [e, scan_nil]

/-- what makes option `o` = `opts[id]` parse back from each of its spellings -/
structure GoodOpt (opts : List OptSpec) (id : Nat) (o : OptSpec) : Prop where
  get : opts[id]? = some o
  findLong : findOpt opts o.long = some id
  findShort : ∀ c, o.short = some c → findOpt opts [c] = some id ∧ c ≠ '-' ∧ c ≠ '='
  longNe : o.long ≠ []
  longNoEq : '=' ∉ o.long

/-- the name the scanner extracts from the option token -/
def tokName (st : Style) (o : OptSpec) : Str :=
  if st.longNames then o.long
  else match o.short with
    | some c => [c]
    | none => o.long

theorem optTok_facts {opts : List OptSpec} {id : Nat} {o : OptSpec} (g : GoodOpt opts id o) (st : Style) (sfx : Str) :
    isArg (optTok st o ++ sfx) = true ∧ optTok st o ++ sfx ≠ str "--" ∧ dashTail (optTok st o ++ sfx) = tokName st o ++ sfx ∧
    findOpt opts (tokName st o) = some id ∧ '=' ∉ tokName st o := by
  have hlong : isArg ('-' :: '-' :: o.long ++ sfx) = true ∧ '-' :: '-' :: o.long ++ sfx ≠ str "--" ∧
      dashTail ('-' :: '-' :: o.long ++ sfx) = o.long ++ sfx := by
    refine ⟨?_, ?_, rfl⟩
    · cases hl : o.long with
      | nil => exact absurd hl g.longNe
      | cons a t => rfl
    · cases hl : o.long with
      | nil => exact absurd hl g.longNe
      | cons a t => simp [str]
  unfold optTok tokName
  cases st.longNames with
  | true => exact ⟨hlong.1, hlong.2.1, hlong.2.2, g.findLong, g.longNoEq⟩
  | false =>
    simp only [Bool.false_eq_true, if_false]
    cases hs : o.short with
    | none => exact ⟨hlong.1, hlong.2.1, hlong.2.2, g.findLong, g.longNoEq⟩
    | some c =>
      obtain ⟨hf, hd, he⟩ := g.findShort c hs
      refine ⟨rfl, ?_, ?_, hf, by simpa using fun h => he h.symm⟩
      · simp only [str, List.cons_append, List.nil_append]
        intro h
        have : c = '-' := by
          have := congrArg (fun l => l.drop 1 |>.head?) h
          simpa using this
        exact hd this
      · simp only [List.cons_append, List.nil_append, dashTail]
        split
        · rename_i h
          simp only [List.cons.injEq] at h
          exact absurd h.2.1 hd
        · rename_i h
          simp only [List.cons.injEq] at h
          rw [← h.2]
        · rename_i h; simp at h

theorem scanTo_free (opts : List OptSpec) (f : Str) (rest : List Str) (m : Matches) (h : isArg f = false) :
    ScanTo opts (f :: rest) m rest { m with free := m.free ++ [f] } := by
  intro fuel hf
  obtain ⟨f', rfl⟩ : ∃ f', fuel = f' + 1 := ⟨fuel - 1, by simp only [List.length_cons] at hf; omega⟩
  exact ⟨f', by simp only [List.length_cons] at hf; omega, scan_free opts f' f rest m h⟩

theorem scanTo_opt {opts : List OptSpec} {id : Nat} {o : OptSpec} (g : GoodOpt opts id o) (ha : o.hasArg = true)
    (st : Style) (v : Str) (rest : List Str) (m : Matches) :
    ScanTo opts (renderOpt st o (some v) ++ rest) m rest { m with vals := m.vals ++ [(id, some v)] } := by
  intro fuel hf
  cases he : st.eqForm with
  | true =>
    simp only [renderOpt, he, if_true, List.cons_append, List.nil_append, List.length_cons] at hf ⊢
    obtain ⟨f', rfl⟩ : ∃ f', fuel = f' + 1 := ⟨fuel - 1, by omega⟩
    obtain ⟨h1, h2, h3, h4, h5⟩ := optTok_facts g st ('=' :: v)
    exact ⟨f', by omega, scan_opt_eq opts f' _ rest m h1 h2 (by rw [h3]; exact splitEq_append _ _ h5) h4 g.get ha⟩
  | false =>
    simp only [renderOpt, he, Bool.false_eq_true, if_false, List.cons_append, List.nil_append, List.length_cons] at hf ⊢
    obtain ⟨f', rfl⟩ : ∃ f', fuel = f' + 1 := ⟨fuel - 1, by omega⟩
    obtain ⟨h1, h2, h3, h4, h5⟩ := optTok_facts g st []
    simp only [List.append_nil] at h1 h2 h3
    exact ⟨f', by omega, scan_opt_sep opts f' _ v rest m h1 h2 (by rw [h3]; exact splitEq_noeq _ h5) h4 g.get ha⟩

theorem scanTo_optional {opts : List OptSpec} {id : Nat} {o : OptSpec} (g : GoodOpt opts id o) (ha : o.hasArg = true)
    (st : Style) (v : Option Str) (rest : List Str) (m : Matches) :
    ScanTo opts (renderOptional st o v ++ rest) m rest
      { m with vals := m.vals ++ (match v with | none => [] | some v => [(id, some v)]) } := by
  cases v with
  | none => simpa [renderOptional] using ScanTo.refl opts rest m
  | some v => exact scanTo_opt g ha st v rest m

theorem scanTo_flag {opts : List OptSpec} {id : Nat} {o : OptSpec} (g : GoodOpt opts id o) (ha : o.hasArg = false)
    (st : Style) (b : Bool) (rest : List Str) (m : Matches) :
    ScanTo opts (renderFlag st o b ++ rest) m rest { m with vals := m.vals ++ (if b then [(id, none)] else []) } := by
  cases b with
  | false => simpa [renderFlag] using ScanTo.refl opts rest m
  | true =>
    intro fuel hf
    simp only [renderFlag, renderOpt, if_true, List.cons_append, List.nil_append, List.length_cons] at hf ⊢
    obtain ⟨f', rfl⟩ : ∃ f', fuel = f' + 1 := ⟨fuel - 1, by omega⟩
    obtain ⟨h1, h2, h3, h4, h5⟩ := optTok_facts g st []
    simp only [List.append_nil] at h1 h2 h3
    exact ⟨f', by omega, scan_flag opts f' _ rest m h1 h2 (by rw [h3]; exact splitEq_noeq _ h5) h4 g.get ha⟩

theorem scanTo_infile (opts : List OptSpec) (inf : Option Str) (rest : List Str) (m : Matches) (h : freeOk inf) :
    ScanTo opts (inf.toList ++ rest) m rest { m with free := m.free ++ inf.toList } := by
  cases inf with
  | none => simpa using ScanTo.refl opts rest m
  | some f => exact scanTo_free opts f rest m (h f rfl)

/-! ### the option tables of main.rs -/

theorem GoodOpt.of_dec {opts : List OptSpec} {id : Nat} {o : OptSpec}
    (hget : opts[id]? = some o) (h : findOpt opts o.long = some id ∧
      (∀ c ∈ o.short.toList, findOpt opts [c] = some id ∧ c ≠ '-' ∧ c ≠ '=') ∧ o.long ≠ [] ∧ '=' ∉ o.long) :
    GoodOpt opts id o :=
  ⟨hget, h.1, fun c hc => h.2.1 c (by simp [hc]), h.2.2.1, h.2.2.2⟩

theorem good_enc_T : GoodOpt [optT, optF, optO, optK, optE] 0 optT := GoodOpt.of_dec rfl (by decide)
theorem good_enc_F : GoodOpt [optT, optF, optO, optK, optE] 1 optF := GoodOpt.of_dec rfl (by decide)
theorem good_enc_O : GoodOpt [optT, optF, optO, optK, optE] 2 optO := GoodOpt.of_dec rfl (by decide)
theorem good_enc_K : GoodOpt [optT, optF, optO, optK, optE] 3 optK := GoodOpt.of_dec rfl (by decide)
theorem good_enc_E : GoodOpt [optT, optF, optO, optK, optE] 4 optE := GoodOpt.of_dec rfl (by decide)
theorem good_dec_T : GoodOpt [optT, optO, optK, optE] 0 optT := GoodOpt.of_dec rfl (by decide)
theorem good_dec_O : GoodOpt [optT, optO, optK, optE] 1 optO := GoodOpt.of_dec rfl (by decide)
theorem good_dec_K : GoodOpt [optT, optO, optK, optE] 2 optK := GoodOpt.of_dec rfl (by decide)
theorem good_dec_E : GoodOpt [optT, optO, optK, optE] 3 optE := GoodOpt.of_dec rfl (by decide)
theorem good_oe_O : GoodOpt [optO, optE] 0 optO := GoodOpt.of_dec rfl (by decide)
theorem good_oe_E : GoodOpt [optO, optE] 1 optE := GoodOpt.of_dec rfl (by decide)
theorem good_e_E : GoodOpt [optE] 0 optE := GoodOpt.of_dec rfl (by decide)

theorem parseDecrypt_render (st : Style) (inf : Option Str) (to : Str) (outf kr : Option Str) (e : Bool) (hinf : freeOk inf) :
    parseDecrypt (inf.toList ++ (renderOpt st optT (some to) ++
      (renderOptional st optO outf ++ (renderOptional st optK kr ++ (renderFlag st optE e ++ []))))) =
    .decrypt inf to outf kr e := by
  have hscan := ScanTo.done (ScanTo.trans (scanTo_infile _ inf _ {} hinf)
    (ScanTo.trans (scanTo_opt good_dec_T rfl st to _ _)
    (ScanTo.trans (scanTo_optional good_dec_O rfl st outf _ _)
    (ScanTo.trans (scanTo_optional good_dec_K rfl st kr _ _)
    (scanTo_flag good_dec_E rfl st e [] _)))))
  unfold parseDecrypt getopts
  rw [hscan]
  cases inf <;> cases outf <;> cases kr <;> cases e <;> rfl

theorem parseEncrypt_render (st : Style) (inf : Option Str) (to fr : Str) (outf kr : Option Str) (e : Bool) (hinf : freeOk inf) :
    parseEncrypt (inf.toList ++ (renderOpt st optT (some to) ++ (renderOpt st optF (some fr) ++
      (renderOptional st optO outf ++ (renderOptional st optK kr ++ (renderFlag st optE e ++ [])))))) =
    .encrypt inf to fr outf kr e := by
  have hscan := ScanTo.done (ScanTo.trans (scanTo_infile _ inf _ {} hinf)
    (ScanTo.trans (scanTo_opt good_enc_T rfl st to _ _)
    (ScanTo.trans (scanTo_opt good_enc_F rfl st fr _ _)
    (ScanTo.trans (scanTo_optional good_enc_O rfl st outf _ _)
    (ScanTo.trans (scanTo_optional good_enc_K rfl st kr _ _)
    (scanTo_flag good_enc_E rfl st e [] _))))))
  unfold parseEncrypt getopts
  rw [hscan]
  cases inf <;> cases outf <;> cases kr <;> cases e <;> rfl

theorem getopts_oe_render (st : Style) (inf : Option Str) (outf : Option Str) (e : Bool) (hinf : freeOk inf) :
    getopts [optO, optE] (inf.toList ++ (renderOptional st optO outf ++ (renderFlag st optE e ++ []))) =
      some { vals := [] ++ (match outf with | none => [] | some v => [(0, some v)]) ++ (if e then [(1, none)] else []),
             free := [] ++ inf.toList } := by
  have hscan := ScanTo.done (ScanTo.trans (scanTo_infile _ inf _ {} hinf)
    (ScanTo.trans (scanTo_optional good_oe_O rfl st outf _ _)
    (scanTo_flag good_oe_E rfl st e [] _)))
  unfold getopts
  rw [hscan]
  cases outf <;> cases e <;> rfl

theorem getopts_e_render (st : Style) (sk : Str) (e : Bool) (hsk : isArg sk = false) :
    getopts [optE] (sk :: (renderFlag st optE e ++ [])) =
      some { vals := [] ++ (if e then [(0, none)] else []), free := [] ++ [sk] } := by
  have hscan := ScanTo.done (ScanTo.trans (scanTo_free [optE] sk _ {} hsk) (scanTo_flag good_e_E rfl st e [] _))
  unfold getopts
  rw [hscan]
  cases e <;> rfl

/-! ### no help request among the rendered tokens -/

def noHelp (l : List Str) : Prop := ∀ a ∈ l, valOk a

theorem contains_help_false {l : List Str} (h : noHelp l) : (l.contains (str "--help") || l.contains (str "-h")) = false := by
  have h1 : str "--help" ∉ l := fun hm => (h _ hm).2 rfl
  have h2 : str "-h" ∉ l := fun hm => (h _ hm).1 rfl
  simp [h1, h2]

theorem noHelp_nil : noHelp [] := fun _ h => absurd h (by simp)
theorem noHelp_cons {a : Str} {l : List Str} (ha : valOk a) (hl : noHelp l) : noHelp (a :: l) := by
  intro b hb
  rcases List.mem_cons.mp hb with rfl | hb
  · exact ha
  · exact hl b hb
theorem noHelp_append {l1 l2 : List Str} (h1 : noHelp l1) (h2 : noHelp l2) : noHelp (l1 ++ l2) := by
  intro b hb
  rcases List.mem_append.mp hb with hb | hb
  · exact h1 b hb
  · exact h2 b hb

theorem valOk_of_not_isArg {f : Str} (h : isArg f = false) : valOk f := by
  constructor <;> (intro hf; rw [hf] at h; exact absurd h (by decide))

/-- every spelling of the option token, with any suffix, is not a help request -/
def TokOk (o : OptSpec) : Prop := ∀ (st : Style) (sfx : Str), valOk (optTok st o ++ sfx)

theorem tokOk_T : TokOk optT := by
  intro st sfx; obtain ⟨l, a, q⟩ := st; cases l <;> simp [optTok, optT, valOk, str]
theorem tokOk_F : TokOk optF := by
  intro st sfx; obtain ⟨l, a, q⟩ := st; cases l <;> simp [optTok, optF, valOk, str]
theorem tokOk_O : TokOk optO := by
  intro st sfx; obtain ⟨l, a, q⟩ := st; cases l <;> simp [optTok, optO, valOk, str]
theorem tokOk_K : TokOk optK := by
  intro st sfx; obtain ⟨l, a, q⟩ := st; cases l <;> simp [optTok, optK, valOk, str]
theorem tokOk_E : TokOk optE := by
  intro st sfx; obtain ⟨l, a, q⟩ := st; cases l <;> simp [optTok, optE, valOk, str]

theorem noHelp_renderOpt {o : OptSpec} (ho : TokOk o) (st : Style) (v : Str) (hv : valOk v) : noHelp (renderOpt st o (some v)) := by
  unfold renderOpt
  cases st.eqForm with
  | true => exact noHelp_cons (ho st _) noHelp_nil
  | false => exact noHelp_cons (by simpa using ho st []) (noHelp_cons hv noHelp_nil)

theorem noHelp_renderOptional {o : OptSpec} (ho : TokOk o) (st : Style) (v : Option Str) (hv : optValOk v) :
    noHelp (renderOptional st o v) := by
  cases v with
  | none => exact noHelp_nil
  | some v => exact noHelp_renderOpt ho st v (hv v rfl)

theorem noHelp_renderFlag {o : OptSpec} (ho : TokOk o) (st : Style) (b : Bool) : noHelp (renderFlag st o b) := by
  cases b with
  | false => exact noHelp_nil
  | true => exact noHelp_cons (by simpa using ho st []) noHelp_nil

theorem noHelp_infile (inf : Option Str) (h : freeOk inf) : noHelp inf.toList := by
  cases inf with
  | none => exact noHelp_nil
  | some f => exact noHelp_cons (valOk_of_not_isArg (h f rfl)) noHelp_nil

theorem valOk_word (st : Style) (a b : String) (ha : valOk (str a)) (hb : valOk (str b)) : valOk (word st a b) := by
  unfold word; cases st.alias <;> simp [ha, hb]

/-- `try_main` once the help check is passed -/
theorem parseArgv_noHelp (prog cmd : Str) (rest : List Str) (h : noHelp (prog :: cmd :: rest)) :
    parseArgv (prog :: cmd :: rest) =
      if cmd = str "-v" ∨ cmd = str "--version" then .version
      else if cmd = str "enc" ∨ cmd = str "encrypt" then parseEncrypt rest
      else if cmd = str "dec" ∨ cmd = str "decrypt" then parseDecrypt rest
      else if cmd = str "key" then parseKey rest
      else if cmd = str "pass" ∨ cmd = str "password" then parsePassword rest
      else .usageError := by
  have := contains_help_false h
  simp only [parseArgv, this, Bool.false_eq_true, if_false]

/-- **rendering then parsing is the identity** (for every spelling) -/
theorem parseArgv_render (prog : Str) (hprog : valOk prog) (st : Style) (req : Request) (h : Renderable req) :
    parseArgv (prog :: render st req) = req := by
  cases req with
  | help => simp [render, parseArgv, str]
  | version =>
    have hno : noHelp (prog :: (if st.longNames then str "--version" else str "-v") :: []) :=
      noHelp_cons hprog (noHelp_cons (by cases st.longNames <;> simp [valOk, str]) noHelp_nil)
    simp only [render]
    rw [parseArgv_noHelp _ _ _ hno]
    cases st.longNames <;> simp
  | usageError =>
    have hno : noHelp (prog :: str "?" :: []) := noHelp_cons hprog (noHelp_cons (by simp [valOk, str]) noHelp_nil)
    simp only [render]
    rw [parseArgv_noHelp _ _ _ hno]
    simp (decide := true)
  | decrypt inf to outf kr e =>
    obtain ⟨h1, h2, h3, h4⟩ := h
    simp only [render]
    have hno : noHelp (prog :: word st "decrypt" "dec" :: (inf.toList ++ (renderOpt st optT (some to) ++
        (renderOptional st optO outf ++ (renderOptional st optK kr ++ (renderFlag st optE e ++ [])))))) :=
      noHelp_cons hprog (noHelp_cons (valOk_word st _ _ (by simp [valOk, str]) (by simp [valOk, str]))
        (noHelp_append (noHelp_infile inf h1) (noHelp_append (noHelp_renderOpt tokOk_T st to h2)
          (noHelp_append (noHelp_renderOptional tokOk_O st outf h3) (noHelp_append (noHelp_renderOptional tokOk_K st kr h4)
            (noHelp_append (noHelp_renderFlag tokOk_E st e) noHelp_nil))))))
    rw [parseArgv_noHelp _ _ _ hno, parseDecrypt_render st inf to outf kr e h1]
    unfold word
    cases st.alias <;> simp (decide := true)
  | encrypt inf to fr outf kr e =>
    obtain ⟨h1, h2, h2', h3, h4⟩ := h
    simp only [render]
    have hno : noHelp (prog :: word st "encrypt" "enc" :: (inf.toList ++ (renderOpt st optT (some to) ++
        (renderOpt st optF (some fr) ++
        (renderOptional st optO outf ++ (renderOptional st optK kr ++ (renderFlag st optE e ++ []))))))) :=
      noHelp_cons hprog (noHelp_cons (valOk_word st _ _ (by simp [valOk, str]) (by simp [valOk, str]))
        (noHelp_append (noHelp_infile inf h1) (noHelp_append (noHelp_renderOpt tokOk_T st to h2)
          (noHelp_append (noHelp_renderOpt tokOk_F st fr h2')
          (noHelp_append (noHelp_renderOptional tokOk_O st outf h3) (noHelp_append (noHelp_renderOptional tokOk_K st kr h4)
            (noHelp_append (noHelp_renderFlag tokOk_E st e) noHelp_nil)))))))
    rw [parseArgv_noHelp _ _ _ hno, parseEncrypt_render st inf to fr outf kr e h1]
    unfold word
    cases st.alias <;> simp (decide := true)
  | keyGen outf e =>
    simp only [render]
    have hno : noHelp (prog :: str "key" :: word st "generate" "gen" :: (renderOptional st optO outf ++ (renderFlag st optE e ++ []))) :=
      noHelp_cons hprog (noHelp_cons (by simp [valOk, str])
        (noHelp_cons (valOk_word st _ _ (by simp [valOk, str]) (by simp [valOk, str]))
          (noHelp_append (noHelp_renderOptional tokOk_O st outf h) (noHelp_append (noHelp_renderFlag tokOk_E st e) noHelp_nil))))
    have hg := getopts_oe_render st none outf e (fun f hf => by cases hf)
    simp only [Option.toList, List.nil_append] at hg
    rw [parseArgv_noHelp _ _ _ hno]
    have hw : word st "generate" "gen" = str "gen" ∨ word st "generate" "gen" = str "generate" := by
      unfold word; cases st.alias <;> simp
    simp (decide := true) only [if_false, if_true, parseKey, hw, hg]
    cases outf <;> cases e <;> rfl
  | changePass sk e =>
    simp only [render]
    have hno : noHelp (prog :: str "key" :: str "change-pass" :: sk :: (renderFlag st optE e ++ [])) :=
      noHelp_cons hprog (noHelp_cons (by simp [valOk, str]) (noHelp_cons (by simp [valOk, str])
        (noHelp_cons (valOk_of_not_isArg h) (noHelp_append (noHelp_renderFlag tokOk_E st e) noHelp_nil))))
    rw [parseArgv_noHelp _ _ _ hno]
    simp (decide := true) only [if_false, if_true, parseKey, getopts_e_render st sk e h]
    cases e <;> rfl
  | extractPub sk e =>
    simp only [render]
    have hno : noHelp (prog :: str "key" :: str "extract-pub" :: sk :: (renderFlag st optE e ++ [])) :=
      noHelp_cons hprog (noHelp_cons (by simp [valOk, str]) (noHelp_cons (by simp [valOk, str])
        (noHelp_cons (valOk_of_not_isArg h) (noHelp_append (noHelp_renderFlag tokOk_E st e) noHelp_nil))))
    rw [parseArgv_noHelp _ _ _ hno]
    simp (decide := true) only [if_false, if_true, parseKey, getopts_e_render st sk e h]
    cases e <;> rfl
  | passEncrypt inf outf e =>
    obtain ⟨h1, h3⟩ := h
    simp only [render]
    have hno : noHelp (prog :: word st "password" "pass" :: word st "encrypt" "enc" ::
        (inf.toList ++ (renderOptional st optO outf ++ (renderFlag st optE e ++ [])))) :=
      noHelp_cons hprog (noHelp_cons (valOk_word st _ _ (by simp [valOk, str]) (by simp [valOk, str]))
        (noHelp_cons (valOk_word st _ _ (by simp [valOk, str]) (by simp [valOk, str]))
          (noHelp_append (noHelp_infile inf h1) (noHelp_append (noHelp_renderOptional tokOk_O st outf h3)
            (noHelp_append (noHelp_renderFlag tokOk_E st e) noHelp_nil)))))
    rw [parseArgv_noHelp _ _ _ hno]
    have hg := getopts_oe_render st inf outf e h1
    unfold word at hg ⊢
    cases st.alias <;> simp (decide := true) only [if_false, if_true, parsePassword, hg] <;>
      cases inf <;> cases outf <;> cases e <;> rfl
  | passDecrypt inf outf e =>
    obtain ⟨h1, h3⟩ := h
    simp only [render]
    have hno : noHelp (prog :: word st "password" "pass" :: word st "decrypt" "dec" ::
        (inf.toList ++ (renderOptional st optO outf ++ (renderFlag st optE e ++ [])))) :=
      noHelp_cons hprog (noHelp_cons (valOk_word st _ _ (by simp [valOk, str]) (by simp [valOk, str]))
        (noHelp_cons (valOk_word st _ _ (by simp [valOk, str]) (by simp [valOk, str]))
          (noHelp_append (noHelp_infile inf h1) (noHelp_append (noHelp_renderOptional tokOk_O st outf h3)
            (noHelp_append (noHelp_renderFlag tokOk_E st e) noHelp_nil)))))
    rw [parseArgv_noHelp _ _ _ hno]
    have hg := getopts_oe_render st inf outf e h1
    unfold word at hg ⊢
    cases st.alias <;> simp (decide := true) only [if_false, if_true, parsePassword, hg] <;>
      cases inf <;> cases outf <;> cases e <;> rfl


/-! ### UTF-8 -/

/-- decoding the UTF-8 encoding of a string gives the string back (so a keyring file written as `utf8 text` reads as `text`) -/
theorem utf8Decode_utf8 (s : Str) : utf8Decode (utf8 s) = some s := by
  have hb : (⟨(utf8 s).toArray⟩ : ByteArray) = s.utf8Encode := by
    apply ByteArray.ext
    simp [List.utf8Encode, utf8]
  unfold utf8Decode
  rw [hb]
  have hv : s.utf8Encode.IsValidUTF8 := ByteArray.isValidUTF8_utf8Encode
  simp only [String.fromUTF8?, hv, dite_true, Option.map_some, Option.some.injEq]
  have : String.fromUTF8 s.utf8Encode hv = String.ofList s := rfl
  rw [this, String.toList_ofList]

/-! ### early failures, one by one (for instantiating the theorems on concrete worlds) -/

theorem runDecrypt_fail_input {P : Prims} {w : World} {inf : Option Str} {to : Str} {outf kr : Option Str} {e : Bool} {c : Err}
    (hsf : sameFile inf outf = false) (hi : openInput w inf = .error c) : runDecrypt P w inf to outf kr e = fail w c := by
  simp only [runDecrypt, hsf, hi, Bool.false_eq_true, if_false]

theorem runDecrypt_fail_keyring {P : Prims} {w : World} {inf : Option Str} {to : Str} {outf kr : Option Str} {e : Bool} {c : Err}
    {input : Bytes} (hsf : sameFile inf outf = false) (hi : openInput w inf = .ok input) (hk : openKeyring w kr = .error c) :
    runDecrypt P w inf to outf kr e = fail w c := by
  simp only [runDecrypt, hsf, hi, hk, Bool.false_eq_true, if_false]

theorem runDecrypt_fail_unlock {P : Prims} {w : World} {inf : Option Str} {to : Str} {outf kr : Option Str} {e : Bool} {c : Err}
    {input : Bytes} {ks : List Keyring.Key} (hsf : sameFile inf outf = false) (hi : openInput w inf = .ok input)
    (hk : openKeyring w kr = .ok ks) (hu : unlockNamed w ks to e = .error c) :
    runDecrypt P w inf to outf kr e = fail w c := by
  simp only [runDecrypt, hsf, hi, hk, hu, Bool.false_eq_true, if_false]

theorem unlockNamed_noKey {w : World} {ks : List Keyring.Key} {n : Str} {e : Bool} (h : Keyring.getKey ks n = none) :
    unlockNamed w ks n e = .error .keyNotFound := by
  simp only [unlockNamed, h]

theorem unlockNamed_noPass {w : World} {ks : List Keyring.Key} {n : Str} {e : Bool} {key : Keyring.Key} {pk : Bytes} {locked : Str}
    {c : Err} (hg : Keyring.getKey ks n = some key) (hd : Keyring.decodePk key.pk = .ok pk) (hs : key.sk = some locked)
    (hp : askPass w e = .error c) : unlockNamed w ks n e = .error c := by
  simp only [unlockNamed, hg, hd, hs, hp]

/-- reading a keyring file that holds `utf8 text` -/
theorem openKeyring_of {w : World} {p text : Str} {ks : List Keyring.Key} (hf : w.file p = some (utf8 text))
    (hp : Keyring.parse text = some ks) : openKeyring w (some p) = .ok ks := by
  simp only [openKeyring, hf, utf8Decode_utf8, hp]

/-- unlocking the named key, step by step -/
theorem unlockNamed_of {w : World} {ks : List Keyring.Key} {name : Str} {key : Keyring.Key} {locked : Str} {pk pw sk : Bytes}
    {e : Bool} (hg : Keyring.getKey ks name = some key) (hd : Keyring.decodePk key.pk = .ok pk) (hs : key.sk = some locked)
    (hp : askPass w e = .ok pw) (hu : Keyring.unlockPrivateKey locked pw = .ok sk) :
    unlockNamed w ks name e = .ok (sk, pk) := by
  simp only [unlockNamed, hg, hd, hs, hp, hu]

/-! ### another order: options reversed, the input file last (free arguments float) -/

/-- `decrypt` / `encrypt` with the options in the reverse of the USAGE order and the input file AFTER them -/
def renderRev (st : Style) : Request → List Str
  | .encrypt inf to fr outf kr e =>
    word st "encrypt" "enc" :: (renderFlag st optE e ++ (renderOptional st optK kr ++ (renderOptional st optO outf ++
      (renderOpt st optF (some fr) ++ (renderOpt st optT (some to) ++ (inf.toList ++ []))))))
  | .decrypt inf to outf kr e =>
    word st "decrypt" "dec" :: (renderFlag st optE e ++ (renderOptional st optK kr ++ (renderOptional st optO outf ++
      (renderOpt st optT (some to) ++ (inf.toList ++ [])))))
  | r => render st r

theorem parseDecrypt_renderRev (st : Style) (inf : Option Str) (to : Str) (outf kr : Option Str) (e : Bool) (hinf : freeOk inf) :
    parseDecrypt (renderFlag st optE e ++ (renderOptional st optK kr ++ (renderOptional st optO outf ++
      (renderOpt st optT (some to) ++ (inf.toList ++ []))))) = .decrypt inf to outf kr e := by
  have hscan := ScanTo.done (ScanTo.trans (scanTo_flag good_dec_E rfl st e _ {})
    (ScanTo.trans (scanTo_optional good_dec_K rfl st kr _ _)
    (ScanTo.trans (scanTo_optional good_dec_O rfl st outf _ _)
    (ScanTo.trans (scanTo_opt good_dec_T rfl st to _ _)
    (scanTo_infile _ inf [] _ hinf)))))
  unfold parseDecrypt getopts
  rw [hscan]
  cases inf <;> cases outf <;> cases kr <;> cases e <;> rfl

theorem parseEncrypt_renderRev (st : Style) (inf : Option Str) (to fr : Str) (outf kr : Option Str) (e : Bool) (hinf : freeOk inf) :
    parseEncrypt (renderFlag st optE e ++ (renderOptional st optK kr ++ (renderOptional st optO outf ++
      (renderOpt st optF (some fr) ++ (renderOpt st optT (some to) ++ (inf.toList ++ [])))))) = .encrypt inf to fr outf kr e := by
  have hscan := ScanTo.done (ScanTo.trans (scanTo_flag good_enc_E rfl st e _ {})
    (ScanTo.trans (scanTo_optional good_enc_K rfl st kr _ _)
    (ScanTo.trans (scanTo_optional good_enc_O rfl st outf _ _)
    (ScanTo.trans (scanTo_opt good_enc_F rfl st fr _ _)
    (ScanTo.trans (scanTo_opt good_enc_T rfl st to _ _)
    (scanTo_infile _ inf [] _ hinf))))))
  unfold parseEncrypt getopts
  rw [hscan]
  cases inf <;> cases outf <;> cases kr <;> cases e <;> rfl

/-- **the reversed order parses to the same request** -/
theorem parseArgv_renderRev (prog : Str) (hprog : valOk prog) (st : Style) (req : Request) (h : Renderable req) :
    parseArgv (prog :: renderRev st req) = req := by
  cases req with
  | decrypt inf to outf kr e =>
    obtain ⟨h1, h2, h3, h4⟩ := h
    simp only [renderRev]
    have hno : noHelp (prog :: word st "decrypt" "dec" :: (renderFlag st optE e ++ (renderOptional st optK kr ++
        (renderOptional st optO outf ++ (renderOpt st optT (some to) ++ (inf.toList ++ [])))))) :=
      noHelp_cons hprog (noHelp_cons (valOk_word st _ _ (by simp [valOk, str]) (by simp [valOk, str]))
        (noHelp_append (noHelp_renderFlag tokOk_E st e) (noHelp_append (noHelp_renderOptional tokOk_K st kr h4)
          (noHelp_append (noHelp_renderOptional tokOk_O st outf h3) (noHelp_append (noHelp_renderOpt tokOk_T st to h2)
            (noHelp_append (noHelp_infile inf h1) noHelp_nil))))))
    rw [parseArgv_noHelp _ _ _ hno, parseDecrypt_renderRev st inf to outf kr e h1]
    unfold word
    cases st.alias <;> simp (decide := true)
  | encrypt inf to fr outf kr e =>
    obtain ⟨h1, h2, h2', h3, h4⟩ := h
    simp only [renderRev]
    have hno : noHelp (prog :: word st "encrypt" "enc" :: (renderFlag st optE e ++ (renderOptional st optK kr ++
        (renderOptional st optO outf ++ (renderOpt st optF (some fr) ++ (renderOpt st optT (some to) ++ (inf.toList ++ []))))))) :=
      noHelp_cons hprog (noHelp_cons (valOk_word st _ _ (by simp [valOk, str]) (by simp [valOk, str]))
        (noHelp_append (noHelp_renderFlag tokOk_E st e) (noHelp_append (noHelp_renderOptional tokOk_K st kr h4)
          (noHelp_append (noHelp_renderOptional tokOk_O st outf h3) (noHelp_append (noHelp_renderOpt tokOk_F st fr h2')
            (noHelp_append (noHelp_renderOpt tokOk_T st to h2) (noHelp_append (noHelp_infile inf h1) noHelp_nil)))))))
    rw [parseArgv_noHelp _ _ _ hno, parseEncrypt_renderRev st inf to fr outf kr e h1]
    unfold word
    cases st.alias <;> simp (decide := true)
  | help => exact parseArgv_render prog hprog st _ h
  | version => exact parseArgv_render prog hprog st _ h
  | usageError => exact parseArgv_render prog hprog st _ h
  | keyGen o e => exact parseArgv_render prog hprog st _ h
  | changePass k e => exact parseArgv_render prog hprog st _ h
  | extractPub k e => exact parseArgv_render prog hprog st _ h
  | passEncrypt i o e => exact parseArgv_render prog hprog st _ h
  | passDecrypt i o e => exact parseArgv_render prog hprog st _ h

/-! ### any order -/

/-- a self-contained stretch of arguments: scanning it appends `items` to the option occurrences and `frees` to the free
    arguments, whatever precedes and follows -/
structure Piece where
  args : List Str
  items : List (Nat × Option Str)
  frees : List Str

def Piece.ok (opts : List OptSpec) (p : Piece) : Prop :=
  ∀ rest m, ScanTo opts (p.args ++ rest) m rest { vals := m.vals ++ p.items, free := m.free ++ p.frees }

theorem scanTo_pieces (opts : List OptSpec) : ∀ (ps : List Piece), (∀ p ∈ ps, p.ok opts) → ∀ rest m,
    ScanTo opts ((ps.map (·.args)).flatten ++ rest) m rest
      { vals := m.vals ++ (ps.map (·.items)).flatten, free := m.free ++ (ps.map (·.frees)).flatten }
  | [], _, rest, m => by simpa using ScanTo.refl opts rest m
  | p :: ps, h, rest, m => by
    have h1 := h p (List.mem_cons_self ..) ((ps.map (·.args)).flatten ++ rest) m
    have h2 := scanTo_pieces opts ps (fun q hq => h q (List.mem_cons_of_mem _ hq)) rest
      { vals := m.vals ++ p.items, free := m.free ++ p.frees }
    have := ScanTo.trans h1 h2
    simpa [List.append_assoc] using this

theorem scan_pieces (opts : List OptSpec) (ps : List Piece) (h : ∀ p ∈ ps, p.ok opts) :
    scan opts ((ps.map (·.args)).flatten.length + 1) (ps.map (·.args)).flatten {} =
      some { vals := (ps.map (·.items)).flatten, free := (ps.map (·.frees)).flatten } := by
  have := ScanTo.done (by simpa using scanTo_pieces opts ps h [] {})
  simpa using this

/-- the pieces of a rendered request -/
def pieceOpt (st : Style) (o : OptSpec) (id : Nat) (v : Str) : Piece := ⟨renderOpt st o (some v), [(id, some v)], []⟩
def pieceOptional (st : Style) (o : OptSpec) (id : Nat) (v : Option Str) : Piece :=
  ⟨renderOptional st o v, (match v with | none => [] | some v => [(id, some v)]), []⟩
def pieceFlag (st : Style) (o : OptSpec) (id : Nat) (b : Bool) : Piece := ⟨renderFlag st o b, (if b then [(id, none)] else []), []⟩
def pieceFile (inf : Option Str) : Piece := ⟨inf.toList, [], inf.toList⟩

theorem pieceOpt_ok {opts : List OptSpec} {id : Nat} {o : OptSpec} (g : GoodOpt opts id o) (ha : o.hasArg = true)
    (st : Style) (v : Str) : (pieceOpt st o id v).ok opts :=
  fun rest m => by simpa [pieceOpt] using scanTo_opt g ha st v rest m
theorem pieceOptional_ok {opts : List OptSpec} {id : Nat} {o : OptSpec} (g : GoodOpt opts id o) (ha : o.hasArg = true)
    (st : Style) (v : Option Str) : (pieceOptional st o id v).ok opts :=
  fun rest m => by
    cases v with
    | none => simpa [pieceOptional, renderOptional] using ScanTo.refl opts rest m
    | some v => simpa [pieceOptional, renderOptional] using scanTo_opt g ha st v rest m
theorem pieceFlag_ok {opts : List OptSpec} {id : Nat} {o : OptSpec} (g : GoodOpt opts id o) (ha : o.hasArg = false)
    (st : Style) (b : Bool) : (pieceFlag st o id b).ok opts :=
  fun rest m => by simpa [pieceFlag] using scanTo_flag g ha st b rest m
theorem pieceFile_ok (opts : List OptSpec) (inf : Option Str) (h : freeOk inf) : (pieceFile inf).ok opts :=
  fun rest m => by simpa [pieceFile] using scanTo_infile opts inf rest m h

/-! the result of `getopts` is read through `countOpt` / `optStr` / `optPresent` / `free` only -/

theorem countOpt_perm {m m' : Matches} (h : m.vals.Perm m'.vals) (id : Nat) : countOpt m id = countOpt m' id :=
  (h.filter _).length_eq

theorem optStr_perm {m m' : Matches} (h : m.vals.Perm m'.vals) (id : Nat) (hc : countOpt m id ≤ 1) : optStr m id = optStr m' id := by
  unfold optStr
  rw [← List.head?_filter, ← List.head?_filter]
  have hp := h.filter (fun x => x.1 == id)
  have : m.vals.filter (fun x => x.1 == id) = m'.vals.filter (fun x => x.1 == id) := by
    unfold countOpt at hc
    cases hl : m.vals.filter (fun x => x.1 == id) with
    | nil => rw [hl] at hp; exact (List.nil_perm.mp hp).symm
    | cons a t =>
      rw [hl] at hc hp
      cases t with
      | nil => exact List.singleton_perm.mp hp
      | cons b t' => simp at hc
  rw [this]

/-- the final check of `Options::parse` -/
def optCheck (opts : List OptSpec) (m : Matches) : Bool :=
  (List.range opts.length).all fun id =>
    (match opts[id]? with
     | some o => (!o.required || countOpt m id ≥ 1) && countOpt m id ≤ 1
     | none => true)

theorem getopts_of_scan {opts : List OptSpec} {args : List Str} {m : Matches}
    (h : scan opts (args.length + 1) args {} = some m) : getopts opts args = if optCheck opts m then some m else none := by
  have : getopts opts args = match scan opts (args.length + 1) args {} with
      | none => none
      | some m => if optCheck opts m then some m else none := rfl
  rw [this, h]

theorem optCheck_perm (opts : List OptSpec) {m m' : Matches} (h : m.vals.Perm m'.vals) : optCheck opts m = optCheck opts m' := by
  unfold optCheck
  congr 1
  funext id
  rw [countOpt_perm h id]

/-- when the check passes every option occurs at most once -/
theorem optCheck_le (opts : List OptSpec) (m : Matches) (h : optCheck opts m = true) (id : Nat) (hid : id < opts.length) :
    countOpt m id ≤ 1 := by
  unfold optCheck at h
  rw [List.all_eq_true] at h
  have := h id (List.mem_range.mpr hid)
  rw [List.getElem?_eq_getElem hid] at this
  simp only [Bool.and_eq_true, decide_eq_true_eq] at this
  exact this.2

theorem parseDecrypt_perm {args args' : List Str} {m m' : Matches}
    (h1 : scan [optT, optO, optK, optE] (args.length + 1) args {} = some m)
    (h2 : scan [optT, optO, optK, optE] (args'.length + 1) args' {} = some m')
    (hv : m.vals.Perm m'.vals) (hf : m.free = m'.free) : parseDecrypt args = parseDecrypt args' := by
  unfold parseDecrypt
  rw [getopts_of_scan h1, getopts_of_scan h2, optCheck_perm _ hv]
  cases hc : optCheck [optT, optO, optK, optE] m' with
  | false => rfl
  | true =>
    have hle := optCheck_le _ m (by rw [optCheck_perm _ hv]; exact hc)
    simp only [if_true, infileOf, hf, optPresent, ← optStr_perm hv 0 (hle 0 (by decide)), ← optStr_perm hv 1 (hle 1 (by decide)),
      ← optStr_perm hv 2 (hle 2 (by decide)), ← countOpt_perm hv 3]

theorem parseEncrypt_perm {args args' : List Str} {m m' : Matches}
    (h1 : scan [optT, optF, optO, optK, optE] (args.length + 1) args {} = some m)
    (h2 : scan [optT, optF, optO, optK, optE] (args'.length + 1) args' {} = some m')
    (hv : m.vals.Perm m'.vals) (hf : m.free = m'.free) : parseEncrypt args = parseEncrypt args' := by
  unfold parseEncrypt
  rw [getopts_of_scan h1, getopts_of_scan h2, optCheck_perm _ hv]
  cases hc : optCheck [optT, optF, optO, optK, optE] m' with
  | false => rfl
  | true =>
    have hle := optCheck_le _ m (by rw [optCheck_perm _ hv]; exact hc)
    simp only [if_true, infileOf, hf, optPresent, ← optStr_perm hv 0 (hle 0 (by decide)), ← optStr_perm hv 1 (hle 1 (by decide)),
      ← optStr_perm hv 2 (hle 2 (by decide)), ← optStr_perm hv 3 (hle 3 (by decide)), ← countOpt_perm hv 4]

/-- the free arguments of a permuted list of pieces, when there is at most one -/
theorem frees_perm {ps ps' : List Piece} (h : ps'.Perm ps) (hl : ((ps.map (·.frees)).flatten).length ≤ 1) :
    (ps'.map (·.frees)).flatten = (ps.map (·.frees)).flatten := by
  have hp : ((ps'.map (·.frees)).flatten).Perm ((ps.map (·.frees)).flatten) := (h.map _).flatten
  cases hc : (ps.map (·.frees)).flatten with
  | nil => rw [hc] at hp; exact List.perm_nil.mp hp
  | cons a t =>
    rw [hc] at hl hp
    cases t with
    | nil => exact List.perm_singleton.mp hp
    | cons b t' => simp at hl

/-- the pieces of `decrypt`, in the USAGE order -/
def decryptPieces (st : Style) (inf : Option Str) (to : Str) (outf kr : Option Str) (e : Bool) : List Piece :=
  [pieceFile inf, pieceOpt st optT 0 to, pieceOptional st optO 1 outf, pieceOptional st optK 2 kr, pieceFlag st optE 3 e]

def encryptPieces (st : Style) (inf : Option Str) (to fr : Str) (outf kr : Option Str) (e : Bool) : List Piece :=
  [pieceFile inf, pieceOpt st optT 0 to, pieceOpt st optF 1 fr, pieceOptional st optO 2 outf, pieceOptional st optK 3 kr,
   pieceFlag st optE 4 e]

theorem decryptPieces_ok (st : Style) (inf : Option Str) (to : Str) (outf kr : Option Str) (e : Bool) (h : freeOk inf) :
    ∀ p ∈ decryptPieces st inf to outf kr e, p.ok [optT, optO, optK, optE] := by
  intro p hp
  simp only [decryptPieces, List.mem_cons, List.mem_nil_iff, or_false] at hp
  rcases hp with rfl | rfl | rfl | rfl | rfl
  · exact pieceFile_ok _ inf h
  · exact pieceOpt_ok good_dec_T rfl st to
  · exact pieceOptional_ok good_dec_O rfl st outf
  · exact pieceOptional_ok good_dec_K rfl st kr
  · exact pieceFlag_ok good_dec_E rfl st e

theorem encryptPieces_ok (st : Style) (inf : Option Str) (to fr : Str) (outf kr : Option Str) (e : Bool) (h : freeOk inf) :
    ∀ p ∈ encryptPieces st inf to fr outf kr e, p.ok [optT, optF, optO, optK, optE] := by
  intro p hp
  simp only [encryptPieces, List.mem_cons, List.mem_nil_iff, or_false] at hp
  rcases hp with rfl | rfl | rfl | rfl | rfl | rfl
  · exact pieceFile_ok _ inf h
  · exact pieceOpt_ok good_enc_T rfl st to
  · exact pieceOpt_ok good_enc_F rfl st fr
  · exact pieceOptional_ok good_enc_O rfl st outf
  · exact pieceOptional_ok good_enc_K rfl st kr
  · exact pieceFlag_ok good_enc_E rfl st e

/-- **any order, decrypt**: every permutation of the rendered pieces (input file, `-t`, `-o`, `-k`, `--env-pass`) parses to the
    same request -/
theorem parseDecrypt_anyOrder (st : Style) (inf : Option Str) (to : Str) (outf kr : Option Str) (e : Bool) (hinf : freeOk inf)
    (ps' : List Piece) (hperm : ps'.Perm (decryptPieces st inf to outf kr e)) :
    parseDecrypt (ps'.map (·.args)).flatten = .decrypt inf to outf kr e := by
  have hok := decryptPieces_ok st inf to outf kr e hinf
  have h1 := scan_pieces _ ps' (fun p hp => hok p (hperm.mem_iff.mp hp))
  have h2 := scan_pieces _ _ hok
  rw [parseDecrypt_perm h1 h2 ((hperm.map _).flatten) (frees_perm hperm (by cases inf <;> simp [decryptPieces, pieceFile, pieceOpt, pieceOptional, pieceFlag]))]
  exact parseDecrypt_render st inf to outf kr e hinf

theorem parseEncrypt_anyOrder (st : Style) (inf : Option Str) (to fr : Str) (outf kr : Option Str) (e : Bool) (hinf : freeOk inf)
    (ps' : List Piece) (hperm : ps'.Perm (encryptPieces st inf to fr outf kr e)) :
    parseEncrypt (ps'.map (·.args)).flatten = .encrypt inf to fr outf kr e := by
  have hok := encryptPieces_ok st inf to fr outf kr e hinf
  have h1 := scan_pieces _ ps' (fun p hp => hok p (hperm.mem_iff.mp hp))
  have h2 := scan_pieces _ _ hok
  rw [parseEncrypt_perm h1 h2 ((hperm.map _).flatten) (frees_perm hperm (by cases inf <;> simp [encryptPieces, pieceFile, pieceOpt, pieceOptional, pieceFlag]))]
  exact parseEncrypt_render st inf to fr outf kr e hinf


theorem noHelp_perm {l l' : List Str} (h : l'.Perm l) (hl : noHelp l) : noHelp l' :=
  fun a ha => hl a (h.mem_iff.mp ha)

theorem parseArgv_anyOrder_decrypt (prog : Str) (hprog : valOk prog) (st : Style) (inf : Option Str) (to : Str)
    (outf kr : Option Str) (e : Bool) (h : Renderable (.decrypt inf to outf kr e))
    (ps' : List Piece) (hperm : ps'.Perm (decryptPieces st inf to outf kr e)) :
    parseArgv (prog :: word st "decrypt" "dec" :: (ps'.map (·.args)).flatten) = .decrypt inf to outf kr e := by
  obtain ⟨h1, h2, h3, h4⟩ := h
  have hcanon : noHelp ((decryptPieces st inf to outf kr e).map (·.args)).flatten :=
    noHelp_append (noHelp_infile inf h1) (noHelp_append (noHelp_renderOpt tokOk_T st to h2)
      (noHelp_append (noHelp_renderOptional tokOk_O st outf h3) (noHelp_append (noHelp_renderOptional tokOk_K st kr h4)
        (noHelp_append (noHelp_renderFlag tokOk_E st e) noHelp_nil))))
  have hno : noHelp (prog :: word st "decrypt" "dec" :: (ps'.map (·.args)).flatten) :=
    noHelp_cons hprog (noHelp_cons (valOk_word st _ _ (by simp [valOk, str]) (by simp [valOk, str]))
      (noHelp_perm (hperm.map _).flatten hcanon))
  rw [parseArgv_noHelp _ _ _ hno, parseDecrypt_anyOrder st inf to outf kr e h1 ps' hperm]
  unfold word
  cases st.alias <;> simp (decide := true)

theorem parseArgv_anyOrder_encrypt (prog : Str) (hprog : valOk prog) (st : Style) (inf : Option Str) (to fr : Str)
    (outf kr : Option Str) (e : Bool) (h : Renderable (.encrypt inf to fr outf kr e))
    (ps' : List Piece) (hperm : ps'.Perm (encryptPieces st inf to fr outf kr e)) :
    parseArgv (prog :: word st "encrypt" "enc" :: (ps'.map (·.args)).flatten) = .encrypt inf to fr outf kr e := by
  obtain ⟨h1, h2, h2', h3, h4⟩ := h
  have hcanon : noHelp ((encryptPieces st inf to fr outf kr e).map (·.args)).flatten :=
    noHelp_append (noHelp_infile inf h1) (noHelp_append (noHelp_renderOpt tokOk_T st to h2)
      (noHelp_append (noHelp_renderOpt tokOk_F st fr h2')
      (noHelp_append (noHelp_renderOptional tokOk_O st outf h3) (noHelp_append (noHelp_renderOptional tokOk_K st kr h4)
        (noHelp_append (noHelp_renderFlag tokOk_E st e) noHelp_nil)))))
  have hno : noHelp (prog :: word st "encrypt" "enc" :: (ps'.map (·.args)).flatten) :=
    noHelp_cons hprog (noHelp_cons (valOk_word st _ _ (by simp [valOk, str]) (by simp [valOk, str]))
      (noHelp_perm (hperm.map _).flatten hcanon))
  rw [parseArgv_noHelp _ _ _ hno, parseEncrypt_anyOrder st inf to fr outf kr e h1 ps' hperm]
  unfold word
  cases st.alias <;> simp (decide := true)

/-- the canonical order is `render` -/
theorem render_decrypt_pieces (st : Style) (inf : Option Str) (to : Str) (outf kr : Option Str) (e : Bool) :
    render st (.decrypt inf to outf kr e) = word st "decrypt" "dec" :: ((decryptPieces st inf to outf kr e).map (·.args)).flatten := rfl
theorem render_encrypt_pieces (st : Style) (inf : Option Str) (to fr : Str) (outf kr : Option Str) (e : Bool) :
    render st (.encrypt inf to fr outf kr e) =
      word st "encrypt" "enc" :: ((encryptPieces st inf to fr outf kr e).map (·.args)).flatten := rfl


end Cli
end Kestrel
