/-
  Helper lemmas for the command-line model (`KestrelModel/Cli.lean`):

  §A  the sink calls (`flush` count, "no call was made") of the decrypt / encrypt entry points when they are run the way
      the CLI runs them: unscripted source (fault-free) and unscripted sink (benign);
  §B  `deliver`, `World.setFile`, the shape of the `run*` commands;
  §C  getopts: `splitEq`, `scan` on rendered options, `render` and `parseArgv`.
-/
import KestrelModel.Cli
import KestrelProofs.IOBasics
import KestrelProofs.DecIO
import KestrelProofs.EncIO
namespace Kestrel

/-! ## §A  sink calls -/

/-- the unscripted source and sink the CLI model uses -/
theorem Src.plain_faultFree (inp : Bytes) : ({ inp := inp } : Src).faultFree := fun _ he => absurd he (by simp)
theorem Snk.plain_benign : ({} : Snk).benign := ⟨fun _ he => absurd he (by simp), fun _ he => absurd he (by simp)⟩

/-- a successful `flush()` is counted -/
theorem Snk.flush_true_flushes {k k' : Snk} (h : k.flush = (true, k')) : k'.flushes = k.flushes + 1 := by
  unfold Snk.flush at h
  split at h
  · simp only [Prod.mk.injEq, true_and] at h; subst h; rfl
  · simp only [Prod.mk.injEq, true_and] at h; subst h; rfl
  · simp at h

/-- one released chunk = exactly one successful flush (ALL scripts) -/
theorem writeChunk_flushes {k k' : Snk} {at_ : Nat × Nat} {pt : Bytes} (h : writeChunk k at_ pt = (true, k')) :
    k'.flushes = k.flushes + 1 := by
  unfold writeChunk at h
  split at h
  · simp at h
  · rename_i k1 hw
    obtain ⟨_, _, _, _, _, _, h5, _⟩ := Snk.writeAll_spec _ _ _ _ _ _ hw
    rw [Snk.flush_true_flushes h, h5]

/-- **flush count of `decrypt_chunks`.** Fault-free source, benign sink: one flush per released chunk, and when no chunk is
    released the sink is *the same object* — not one `write()` or `flush()` call was made. -/
theorem decLoopIO_flushes (A : Aead) (key aad : Bytes) (cs : Nat) :
    ∀ (fuel fuel0 ctr : Nat) (s : Src) (k : Snk) (res : Res) (s' : Src) (k' : Snk) (ws : List Bytes) (pres : Res),
    s.faultFree → k.benign → s.inp.length + 1 ≤ fuel → s.inp.length ≤ fuel0 →
    decLoopIO A key aad cs fuel ctr s k = (res, s', k') →
    decLoop A key aad cs fuel0 ctr s.inp = (ws, pres) →
    k'.flushes = k.flushes + ws.length ∧ (ws = [] → k' = k) := by
  intro fuel
  induction fuel with
  | zero => intro fuel0 ctr s k res s' k' ws pres _ _ hf; omega
  | succ f ih =>
    intro fuel0 ctr s k res s' k' ws pres hs hk hf hf0 hIO hP
    rw [← decLoop_fuel_succ A key aad cs fuel0 ctr s.inp hf0] at hP
    rw [decLoopIO_succ] at hIO
    rcases hrr : readRecordIO A key aad cs ctr s with ⟨o, s3⟩
    rw [hrr] at hIO
    obtain ⟨hsc, hchunk, _⟩ := readRecordIO_spec hrr
    cases o with
    | fail e =>
      simp only [Prod.mk.injEq] at hIO
      obtain ⟨rfl, rfl, rfl⟩ := hIO
      obtain ⟨_, h2⟩ := readRecordIO_fail_pure hrr fuel0
      rw [h2 hs] at hP
      simp only [Prod.mk.injEq] at hP; obtain ⟨rfl, rfl⟩ := hP
      exact ⟨by simp, fun _ => rfl⟩
    | chunk pt last =>
      obtain ⟨rest', hp1, hi3, hpos3, hlast⟩ := hchunk pt last rfl
      rw [decLoop_succ, hp1] at hP
      simp only at hP hIO
      have hlen := parse1_chunk_len hp1
      rcases hwc : writeChunk k (s3.pos, s3.nreads) pt with ⟨r, k2⟩
      rw [hwc] at hIO
      obtain ⟨p, L, ho, hpp, hpt, _, _, _, _, hbn⟩ := writeChunk_spec hwc
      obtain ⟨rfl, hk2⟩ := hbn hk
      have hfl := writeChunk_flushes hwc
      simp only at hIO
      cases last with
      | true =>
        have hr : rest' = [] := hlast rfl hs.noFalseEof
        subst hr
        simp only [if_true, List.length_nil, ne_eq, not_true_eq_false, if_false, Prod.mk.injEq] at hP hIO
        obtain ⟨rfl, rfl⟩ := hP
        obtain ⟨rfl, rfl, rfl⟩ := hIO
        exact ⟨by simp [hfl], fun h => by simp at h⟩
      | false =>
        simp only [Bool.false_eq_true, if_false, Prod.mk.injEq] at hP hIO
        obtain ⟨rfl, rfl⟩ := hP
        obtain ⟨h1, _⟩ := ih fuel0 (ctr+1) s3 k2 res s' k' _ _ (Src.faultFree_of_suffix hs hsc) hk2
            (by rw [hi3]; omega) (by rw [hi3]; omega) hIO (by rw [hi3])
        exact ⟨by rw [h1, hfl]; simp only [List.length_cons]; omega, fun h => by simp at h⟩

/-- a pure run that reports success has released at least one chunk (an empty file is one empty chunk) -/
theorem decLoop_ok_ne_nil {A : Aead} {key aad : Bytes} {cs fuel ctr : Nat} {inp : Bytes} {ws : List Bytes}
    (h : decLoop A key aad cs fuel ctr inp = (ws, .ok)) : ws ≠ [] := by
  cases fuel with
  | zero => simp [decLoop] at h
  | succ f =>
    rw [decLoop_succ] at h
    split at h
    · simp only [Prod.mk.injEq] at h
      have := h.2
      rename_i e hp
      unfold parse1 at hp
      subst this
      split at hp
      · simp at hp
      · split at hp
        · simp at hp
        · split at hp
          · simp at hp
          · split at hp <;> simp at hp
    · split at h
      · split at h
        · simp at h
        · simp only [Prod.mk.injEq] at h; rw [← h.1]; simp
      · simp only [Prod.mk.injEq] at h; rw [← h.1]; simp

/-- **`key_decrypt` as the CLI runs it.** Fault-free source, benign sink: result, sender and output are the pure ones, the
    number of flushes is the number of released chunks, and with no released chunk the sink was never called. -/
theorem keyDecryptIO_calls (P : Prims) (r rpk : Bytes) (src : Src) (k : Snk) (hs : src.faultFree) (hk : k.benign)
    {res pres : Res} {s' : Src} {k' : Snk} {sender psender : Option Bytes} {writes : List Bytes}
    (hIO : keyDecryptIO P r rpk src k = (res, s', k', sender))
    (hP : keyDecrypt P r rpk src.inp = (writes, pres, psender)) :
    res = pres ∧ sender = psender ∧ k'.out = k.out ++ writes.flatten ∧
    k'.flushes = k.flushes + writes.length ∧ (writes = [] → k' = k) ∧ (pres = .ok → writes ≠ [] ∧ ∃ spk, psender = some spk) := by
  rcases keyDecryptIO_cases hIO hP with ⟨rfl, rfl, hok, _, h⟩ | ⟨s2, pk, h, spk, _, _, _, hsc, hd, hpd, rfl, rfl⟩
  · rcases h with ⟨h1, h2, h3, _⟩ | ⟨h1, h2⟩
    · subst h3; exact ⟨h1, h2.symm, by simp, by simp, fun _ => rfl, fun h => absurd (h1.trans h) hok⟩
    · obtain ⟨h3, h4, h5⟩ := h2 hs.benign
      subst h4; exact ⟨by rw [h1, h3], h5.symm, by simp, by simp, fun _ => rfl, fun h => by rw [h3] at h; simp at h⟩
  · have hs2 := Src.faultFree_of_suffix hs hsc
    obtain ⟨h1, h2⟩ := decLoopIO_faultFree P.aead _ [] Generated.chunkSize hs2 hk (Nat.le_refl _) (Nat.le_refl _) hd hpd
    obtain ⟨h3, h4⟩ := decLoopIO_flushes P.aead _ [] Generated.chunkSize _ _ 0 s2 k res s' k' writes pres hs2 hk
      (Nat.le_refl _) (Nat.le_refl _) hd hpd
    refine ⟨h1, by rw [h1], h2, h3, h4, fun hok => ?_⟩
    subst hok
    exact ⟨decLoop_ok_ne_nil hpd, spk, by simp⟩

/-- **`pass_decrypt` as the CLI runs it.** -/
theorem passDecryptIO_calls (P : Prims) (pw : Bytes) (src : Src) (k : Snk) (hs : src.faultFree) (hk : k.benign)
    {res pres : Res} {s' : Src} {k' : Snk} {writes : List Bytes}
    (hIO : passDecryptIO P pw src k = (res, s', k'))
    (hP : passDecrypt P pw src.inp = (writes, pres)) :
    res = pres ∧ k'.out = k.out ++ writes.flatten ∧
    k'.flushes = k.flushes + writes.length ∧ (writes = [] → k' = k) ∧ (pres = .ok → writes ≠ []) := by
  rcases passDecryptIO_cases hIO hP with ⟨rfl, hok, _, h⟩ | ⟨s2, salt, _, _, _, hsc, hd, hpd⟩
  · rcases h with ⟨h1, h3, _⟩ | ⟨h1, h2⟩
    · subst h3; exact ⟨h1, by simp, by simp, fun _ => rfl, fun h => absurd (h1.trans h) hok⟩
    · obtain ⟨h3, h4⟩ := h2 hs.benign
      subst h4; exact ⟨by rw [h1, h3], by simp, by simp, fun _ => rfl, fun h => by rw [h3] at h; simp at h⟩
  · have hs2 := Src.faultFree_of_suffix hs hsc
    obtain ⟨h1, h2⟩ := decLoopIO_faultFree P.aead _ _ Generated.chunkSize hs2 hk (Nat.le_refl _) (Nat.le_refl _) hd hpd
    obtain ⟨h3, h4⟩ := decLoopIO_flushes P.aead _ _ Generated.chunkSize _ _ 0 s2 k res s' k' writes pres hs2 hk
      (Nat.le_refl _) (Nat.le_refl _) hd hpd
    refine ⟨h1, h2, h3, h4, fun hok => ?_⟩
    subst hok
    exact decLoop_ok_ne_nil hpd

/-! ### encrypt side -/

open EncIO in
/-- a record that was written completely ended with a successful flush (ALL scripts) -/
theorem writeRecord_true_flushes (k : Snk) (at_ : Nat × Nat) (hdr body : Bytes)
    (h : (writeRecord k at_ hdr body).1 = true) : 1 ≤ (writeRecord k at_ hdr body).2.flushes := by
  unfold writeRecord at h ⊢
  split
  · rename_i k1 h1; rw [h1] at h; simp at h
  · rename_i k1 h1
    rw [h1] at h
    simp only at h ⊢
    split
    · rename_i k2 h2; rw [h2] at h; simp at h
    · rename_i k2 h2
      rw [h2] at h
      simp only at h ⊢
      have := Snk.flush_true_flushes (k := k2) (k' := k2.flush.2) (Prod.ext h rfl)
      omega

open EncIO in
/-- `encrypt_chunks` reports success only after the final record has been flushed (ALL scripts) -/
theorem encLoopIO_ok_flushes (A : Aead) (key aad : Bytes) (cs : Nat) :
    ∀ (fuel ctr : Nat) (prev : Bytes) (done : Bool) (s : Src) (k : Snk),
    (encLoopIO A key aad cs fuel ctr prev done s k).1 = .ok → 1 ≤ (encLoopIO A key aad cs fuel ctr prev done s k).2.2.flushes := by
  intro fuel
  induction fuel with
  | zero => intro _ _ _ _ _ h; simp [encLoopIO] at h
  | succ fuel ih =>
    intro ctr prev done s k
    cases hread : s.read cs with
    | mk rr s' =>
      cases rr with
      | err => rw [encLoopIO_err A key aad cs hread]; simp
      | interrupted => rw [encLoopIO_int A key aad cs hread]; simp
      | got r =>
        by_cases hr : r.length = 0
        · rw [encLoopIO_last A key aad cs hread hr]
          cases hw : (recW A key aad ctr true prev s' k).1
          · simp
          · intro _
            exact writeRecord_true_flushes _ _ _ _ hw
        · cases done with
          | true => rw [encLoopIO_unexp A key aad cs hread hr]; simp
          | false =>
            rw [encLoopIO_more A key aad cs hread hr]
            cases (recW A key aad ctr false prev s' k).1
            · simp
            · simpa using ih (ctr+1) r false s' _

open EncIO in
theorem encryptChunksIO_ok_flushes (A : Aead) (key aad : Bytes) (cs : Nat) (s : Src) (k : Snk)
    (h : (encryptChunksIO A key aad cs s k).1 = .ok) : 1 ≤ (encryptChunksIO A key aad cs s k).2.2.flushes := by
  unfold encryptChunksIO at h ⊢
  split
  · rename_i h1; rw [h1] at h; simp at h
  · rename_i h1; rw [h1] at h; simp at h
  · rename_i r s' h1
    rw [h1] at h
    exact encLoopIO_ok_flushes A key aad cs _ _ _ _ _ _ h

open EncIO in
/-- header + chunks (the common shape of `key_encrypt` / `pass_encrypt`) as the CLI runs it: fault-free source, benign sink —
    always succeeds, the output is the pure one for the source's read schedule, and at least one flush happened -/
theorem htc_calls (A : Aead) (key aad : Bytes) (cs : Nat) (hcs : 0 < cs) (hdr body : Bytes) (src : Src) (k : Snk)
    (hs : src.faultFree) (hk : k.benign) :
    (hdrThenChunks A key aad cs hdr body src k).1 = .ok ∧
    (hdrThenChunks A key aad cs hdr body src k).2.2.out =
      k.out ++ (hdr ++ body ++ (encryptChunks A key aad (Src.reads cs src)).1) ∧
    1 ≤ (hdrThenChunks A key aad cs hdr body src k).2.2.flushes := by
  obtain ⟨h1, h2⟩ := htc_faultFree A key aad cs hdr body hcs src k hs hk
  rw [encryptChunks_reads] at h1
  refine ⟨h1, h2, ?_⟩
  unfold hdrThenChunks at h1 ⊢
  split
  · rename_i hw
    rw [if_pos hw] at h1
    exact encryptChunksIO_ok_flushes A key aad cs _ _ h1
  · rename_i hw
    rw [if_neg hw] at h1
    simp at h1

/-! ## §B  the world, `deliver`, the shape of the commands -/

namespace Cli
open Kestrel.Keyring (Str utf8)

theorem World.file_setFile (w : World) (p : Str) (b : Bytes) : (w.setFile p b).file p = some b := by
  simp [World.file, World.setFile]

theorem World.file_setFile_ne (w : World) {p q : Str} (b : Bytes) (h : q ≠ p) : (w.setFile p b).file q = w.file q := by
  have hpq : (p == q) = false := by simpa using fun h' => h h'.symm
  simp only [World.file, World.setFile, List.find?_cons, hpq]
  congr 1
  induction w.files with
  | nil => rfl
  | cons a l ih =>
    simp only [List.filter_cons, List.find?_cons]
    by_cases ha : a.1 = p
    · have h1 : (a.1 != p) = false := by simp [ha]
      have h2 : (a.1 == q) = false := by simpa [ha] using fun h' => h h'.symm
      simp only [h1, h2, Bool.false_eq_true, if_false]
      exact ih
    · have h1 : (a.1 != p) = true := by simpa using ha
      simp only [h1, if_true, List.find?_cons]
      cases a.1 == q <;> simp [ih]

theorem World.setFile_env (w : World) (p : Str) (b : Bytes) : (w.setFile p b).env = w.env := rfl
theorem World.setFile_stdin (w : World) (p : Str) (b : Bytes) : (w.setFile p b).stdin = w.stdin := rfl

/-- no call was made on the sink: nothing is delivered and the world is the same object -/
theorem deliver_init (w : World) (outf : Option Str) : deliver w outf {} = (w, []) := by
  cases outf <;> rfl

theorem deliver_none (w : World) (k : Snk) : deliver w none k = (w, k.out) := rfl

/-- at least one flush: the output file exists and holds exactly the sink's bytes -/
theorem deliver_flushed (w : World) (q : Str) (k : Snk) (h : 1 ≤ k.flushes) :
    deliver w (some q) k = (w.setFile q k.out, []) := by
  have : (k.flushes == 0) = false := by simp; omega
  simp [deliver, this]

/-- what `deliver` can do to a named output file: nothing, or create/truncate it with the sink's bytes -/
theorem deliver_some_cases (w : World) (q : Str) (k : Snk) :
    (k.log = [] ∧ k.flushes = 0 ∧ deliver w (some q) k = (w, [])) ∨
    ((k.log ≠ [] ∨ k.flushes ≠ 0) ∧ deliver w (some q) k = (w.setFile q k.out, [])) := by
  by_cases h : k.log = [] ∧ k.flushes = 0
  · left; refine ⟨h.1, h.2, ?_⟩; simp [deliver, h.1, h.2]
  · right
    refine ⟨by by_cases h1 : k.log = [] <;> simp_all, ?_⟩
    have : (k.log.isEmpty && k.flushes == 0) = false := by
      by_cases h1 : k.log = []
      · have : k.flushes ≠ 0 := fun h2 => h ⟨h1, h2⟩
        simp [this]
      · simp [h1]
    simp [deliver, this]

/-! ### error classes of the preparatory steps -/

theorem openInput_err {w : World} {inf : Option Str} {e : Err} (h : openInput w inf = .error e) : e = .noInput := by
  unfold openInput at h
  split at h
  · split at h <;> simp at h; exact h.symm
  · simp at h

theorem openKeyring_err {w : World} {kr : Option Str} {e : Err} (h : openKeyring w kr = .error e) :
    e = .noKeyring ∨ e = .keyringRead ∨ e = .keyringUtf8 ∨ e = .keyringParse := by
  unfold openKeyring at h
  simp only at h
  split at h
  · simp at h; simp [← h]
  · split at h
    · simp at h; simp [← h]
    · split at h
      · simp at h; simp [← h]
      · split at h
        · simp at h; simp [← h]
        · simp at h

theorem askPass_err {w : World} {b : Bool} {v : String} {e : Err} (h : askPass w b v = .error e) : e = .noPassword := by
  unfold askPass at h
  split at h
  · split at h <;> simp at h; exact h.symm
  · simp at h; exact h.symm

theorem unlockNamed_err {w : World} {ks : List Keyring.Key} {name : Str} {b : Bool} {e : Err}
    (h : unlockNamed w ks name b = .error e) :
    e = .keyNotFound ∨ e = .pkDecode ∨ e = .noPrivateKey ∨ e = .noPassword ∨ e = .unlockFailed := by
  unfold unlockNamed at h
  split at h
  · simp at h; simp [← h]
  · split at h
    · simp at h; simp [← h]
    · split at h
      · simp at h; simp [← h]
      · split at h
        · rename_i e' hp
          simp at h; subst h
          simp [askPass_err hp]
        · split at h
          · simp at h; simp [← h]
          · simp at h

/-- the failure causes of `decrypt` / `encrypt` that are decided before the cryptographic call -/
def earlyCauses : List Err :=
  [.sameFile, .noInput, .noKeyring, .keyringRead, .keyringUtf8, .keyringParse, .keyNotFound, .pkDecode,
   .noPrivateKey, .noPassword, .unlockFailed]

/-- the sender line -/
def senderOf (ks : List Keyring.Key) : Option Bytes → Option (Sum Str Str)
  | some spk => (match Keyring.getNameFromKey ks (Keyring.encodePk spk) with
      | some n => some (Sum.inl n)
      | none => some (Sum.inr (Keyring.encodePk spk)))
  | none => none

/-- the end of `runDecrypt`: deliver what the sink holds, report -/
def decryptFinish (w : World) (outf : Option Str) (ks : List Keyring.Key) (r : Res × Src × Snk × Option Bytes) : Outcome :=
  if r.1 = .ok then
    { exit := 0, world := (deliver w outf r.2.2.1).1, stdout := (deliver w outf r.2.2.1).2, sender := senderOf ks r.2.2.2 }
  else { exit := 1, world := (deliver w outf r.2.2.1).1, stdout := (deliver w outf r.2.2.1).2, err := some (.crypto r.1) }

/-- the end of the three other stream commands -/
def streamFinish (w : World) (outf : Option Str) (r : Res × Src × Snk) : Outcome :=
  if r.1 = .ok then { exit := 0, world := (deliver w outf r.2.2).1, stdout := (deliver w outf r.2.2).2 }
  else { exit := 1, world := (deliver w outf r.2.2).1, stdout := (deliver w outf r.2.2).2, err := some (.crypto r.1) }

/-- `runDecrypt` once the input, the keyring and the key are there -/
theorem runDecrypt_path {P : Prims} {w : World} {inf : Option Str} {to : Str} {outf kr : Option Str} {e : Bool}
    {input : Bytes} {ks : List Keyring.Key} {sk pk : Bytes}
    (hsf : sameFile inf outf = false) (hi : openInput w inf = .ok input) (hk : openKeyring w kr = .ok ks)
    (hu : unlockNamed w ks to e = .ok (sk, pk)) :
    runDecrypt P w inf to outf kr e = decryptFinish w outf ks (keyDecryptIO P sk pk { inp := input } {}) := by
  simp only [runDecrypt, hsf, hi, hk, hu, Bool.false_eq_true, if_false, decryptFinish]
  generalize keyDecryptIO P sk pk { inp := input } {} = r
  obtain ⟨res, s, k, snd⟩ := r
  simp only
  generalize deliver w outf k = d
  obtain ⟨w', out⟩ := d
  cases snd <;> rfl

/-- **shape of `runDecrypt`**: an early failure that returns the world as it was, or the cryptographic call -/
theorem runDecrypt_spec (P : Prims) (w : World) (inf : Option Str) (to : Str) (outf kr : Option Str) (e : Bool) :
    (∃ c, c ∈ earlyCauses ∧ runDecrypt P w inf to outf kr e = fail w c) ∨
    (∃ input ks sk pk, sameFile inf outf = false ∧ openInput w inf = .ok input ∧ openKeyring w kr = .ok ks ∧
      unlockNamed w ks to e = .ok (sk, pk) ∧
      runDecrypt P w inf to outf kr e = decryptFinish w outf ks (keyDecryptIO P sk pk { inp := input } {})) := by
  cases hsf : sameFile inf outf with
  | true => left; exact ⟨.sameFile, by simp [earlyCauses], by simp [runDecrypt, hsf]⟩
  | false =>
    cases hi : openInput w inf with
    | error c =>
      left; refine ⟨c, ?_, by simp [runDecrypt, hsf, hi]⟩
      rw [openInput_err hi]; simp [earlyCauses]
    | ok input =>
      cases hk : openKeyring w kr with
      | error c =>
        left; refine ⟨c, ?_, by simp [runDecrypt, hsf, hi, hk]⟩
        rcases openKeyring_err hk with h | h | h | h <;> simp [h, earlyCauses]
      | ok ks =>
        cases hu : unlockNamed w ks to e with
        | error c =>
          left; refine ⟨c, ?_, by simp [runDecrypt, hsf, hi, hk, hu]⟩
          rcases unlockNamed_err hu with h | h | h | h | h <;> simp [h, earlyCauses]
        | ok kp =>
          obtain ⟨sk, pk⟩ := kp
          right
          exact ⟨input, ks, sk, pk, rfl, rfl, rfl, hu, runDecrypt_path hsf hi hk hu⟩

theorem streamFinish_eq (w : World) (outf : Option Str) (res : Res) (s : Src) (k : Snk) :
    (match deliver w outf k with
      | (w', out) =>
        if res = .ok then ({ exit := 0, world := w', stdout := out } : Outcome)
        else { exit := 1, world := w', stdout := out, err := some (.crypto res) }) = streamFinish w outf (res, s, k) := by
  simp only [streamFinish]

/-- `runPassDecrypt` once the input and the password are there -/
theorem runPassDecrypt_path {P : Prims} {w : World} {inf outf : Option Str} {e : Bool} {input pw : Bytes}
    (hsf : sameFile inf outf = false) (hi : openInput w inf = .ok input) (hp : askPass w e = .ok pw) :
    runPassDecrypt P w inf outf e = streamFinish w outf (passDecryptIO P pw { inp := input } {}) := by
  simp only [runPassDecrypt, hsf, hi, hp, Bool.false_eq_true, if_false]
  generalize passDecryptIO P pw { inp := input } {} = r
  obtain ⟨res, s, k⟩ := r
  exact streamFinish_eq w outf res s k

theorem runPassDecrypt_spec (P : Prims) (w : World) (inf outf : Option Str) (e : Bool) :
    (∃ c, c ∈ earlyCauses ∧ runPassDecrypt P w inf outf e = fail w c) ∨
    (∃ input pw, sameFile inf outf = false ∧ openInput w inf = .ok input ∧ askPass w e = .ok pw ∧
      runPassDecrypt P w inf outf e = streamFinish w outf (passDecryptIO P pw { inp := input } {})) := by
  cases hsf : sameFile inf outf with
  | true => left; exact ⟨.sameFile, by simp [earlyCauses], by simp [runPassDecrypt, hsf]⟩
  | false =>
    cases hi : openInput w inf with
    | error c =>
      left; refine ⟨c, ?_, by simp [runPassDecrypt, hsf, hi]⟩
      rw [openInput_err hi]; simp [earlyCauses]
    | ok input =>
      cases hp : askPass w e with
      | error c =>
        left; refine ⟨c, ?_, by simp [runPassDecrypt, hsf, hi, hp]⟩
        rw [askPass_err hp]; simp [earlyCauses]
      | ok pw => right; exact ⟨input, pw, rfl, rfl, rfl, runPassDecrypt_path hsf hi hp⟩

/-- `runPassEncrypt` once the input and the password are there -/
theorem runPassEncrypt_path {P : Prims} {rnd : Rand} {w : World} {inf outf : Option Str} {e : Bool} {input pw : Bytes}
    (hsf : sameFile inf outf = false) (hi : openInput w inf = .ok input) (hp : askPass w e = .ok pw) :
    runPassEncrypt P rnd w inf outf e = streamFinish w outf (passEncryptIO P pw rnd.a { inp := input } {}) := by
  simp only [runPassEncrypt, hsf, hi, hp, Bool.false_eq_true, if_false]
  generalize passEncryptIO P pw rnd.a { inp := input } {} = r
  obtain ⟨res, s, k⟩ := r
  exact streamFinish_eq w outf res s k

theorem runPassEncrypt_spec (P : Prims) (rnd : Rand) (w : World) (inf outf : Option Str) (e : Bool) :
    (∃ c, c ∈ earlyCauses ∧ runPassEncrypt P rnd w inf outf e = fail w c) ∨
    (∃ input pw, sameFile inf outf = false ∧ openInput w inf = .ok input ∧ askPass w e = .ok pw ∧
      runPassEncrypt P rnd w inf outf e = streamFinish w outf (passEncryptIO P pw rnd.a { inp := input } {})) := by
  cases hsf : sameFile inf outf with
  | true => left; exact ⟨.sameFile, by simp [earlyCauses], by simp [runPassEncrypt, hsf]⟩
  | false =>
    cases hi : openInput w inf with
    | error c =>
      left; refine ⟨c, ?_, by simp [runPassEncrypt, hsf, hi]⟩
      rw [openInput_err hi]; simp [earlyCauses]
    | ok input =>
      cases hp : askPass w e with
      | error c =>
        left; refine ⟨c, ?_, by simp [runPassEncrypt, hsf, hi, hp]⟩
        rw [askPass_err hp]; simp [earlyCauses]
      | ok pw => right; exact ⟨input, pw, rfl, rfl, rfl, runPassEncrypt_path hsf hi hp⟩

/-- `runEncrypt` once everything it needs is there -/
theorem runEncrypt_path {P : Prims} {rnd : Rand} {w : World} {inf : Option Str} {to fr : Str} {outf kr : Option Str} {e : Bool}
    {input : Bytes} {ks : List Keyring.Key} {rkey : Keyring.Key} {rpk sk spk epk : Bytes}
    (hsf : sameFile inf outf = false) (hi : openInput w inf = .ok input) (hk : openKeyring w kr = .ok ks)
    (hg : Keyring.getKey ks to = some rkey) (hd : Keyring.decodePk rkey.pk = .ok rpk)
    (hu : unlockNamed w ks fr e = .ok (sk, spk)) (he : P.pub rnd.b = some epk) :
    runEncrypt P rnd w inf to fr outf kr e =
      streamFinish w outf (keyEncryptIO P sk spk rpk rnd.b epk rnd.a { inp := input } {}) := by
  simp only [runEncrypt, hsf, hi, hk, hg, hd, hu, he, Bool.false_eq_true, if_false]
  generalize keyEncryptIO P sk spk rpk rnd.b epk rnd.a { inp := input } {} = r
  obtain ⟨res, s, k⟩ := r
  exact streamFinish_eq w outf res s k

theorem runEncrypt_spec (P : Prims) (rnd : Rand) (w : World) (inf : Option Str) (to fr : Str) (outf kr : Option Str) (e : Bool) :
    (∃ c, (c ∈ earlyCauses ∨ (c = .crypto .other ∧ P.pub rnd.b = none)) ∧ runEncrypt P rnd w inf to fr outf kr e = fail w c) ∨
    (∃ input ks rkey rpk sk spk epk, sameFile inf outf = false ∧ openInput w inf = .ok input ∧ openKeyring w kr = .ok ks ∧
      Keyring.getKey ks to = some rkey ∧ Keyring.decodePk rkey.pk = .ok rpk ∧ unlockNamed w ks fr e = .ok (sk, spk) ∧
      P.pub rnd.b = some epk ∧
      runEncrypt P rnd w inf to fr outf kr e =
        streamFinish w outf (keyEncryptIO P sk spk rpk rnd.b epk rnd.a { inp := input } {})) := by
  cases hsf : sameFile inf outf with
  | true => left; exact ⟨.sameFile, by simp [earlyCauses], by simp [runEncrypt, hsf]⟩
  | false =>
    cases hi : openInput w inf with
    | error c =>
      left; refine ⟨c, Or.inl ?_, by simp [runEncrypt, hsf, hi]⟩
      rw [openInput_err hi]; simp [earlyCauses]
    | ok input =>
      cases hk : openKeyring w kr with
      | error c =>
        left; refine ⟨c, Or.inl ?_, by simp [runEncrypt, hsf, hi, hk]⟩
        rcases openKeyring_err hk with h | h | h | h <;> simp [h, earlyCauses]
      | ok ks =>
        cases hg : Keyring.getKey ks to with
        | none => left; exact ⟨.keyNotFound, Or.inl (by simp [earlyCauses]), by simp [runEncrypt, hsf, hi, hk, hg]⟩
        | some rkey =>
          cases hd : Keyring.decodePk rkey.pk with
          | error _ => left; exact ⟨.pkDecode, Or.inl (by simp [earlyCauses]), by simp [runEncrypt, hsf, hi, hk, hg, hd]⟩
          | ok rpk =>
            cases hu : unlockNamed w ks fr e with
            | error c =>
              left; refine ⟨c, Or.inl ?_, by simp [runEncrypt, hsf, hi, hk, hg, hd, hu]⟩
              rcases unlockNamed_err hu with h | h | h | h | h <;> simp [h, earlyCauses]
            | ok kp =>
              obtain ⟨sk, spk⟩ := kp
              cases he : P.pub rnd.b with
              | none => left; exact ⟨.crypto .other, Or.inr ⟨rfl, rfl⟩, by simp [runEncrypt, hsf, hi, hk, hg, hd, hu, he]⟩
              | some epk =>
                right
                exact ⟨input, ks, rkey, rpk, sk, spk, epk, rfl, rfl, rfl, hg, hd, hu, rfl,
                  runEncrypt_path hsf hi hk hg hd hu he⟩

end Cli
end Kestrel
