/-
  Helper lemmas for the command-line model (`KestrelModel/Cli.lean`):

  §A  the sink calls (`flush` count, "no call was made") of the decrypt / encrypt entry points when they are run the way
      the CLI runs them: unscripted source (fault-free) and unscripted sink (benign);
  §B  `deliver`, `World.setFile`, the shape of the `run*` commands;
  §C  getopts: `splitEq`, `scan` on rendered options, `render` and `parseArgv`.
-/
import KestrelModel.Cli
import KestrelProofs.IOBasics
import KestrelProofs.DecIO
import KestrelProofs.EncIO
namespace Kestrel

/-! ## §A  sink calls -/

/-- the unscripted source and sink the CLI model uses -/
theorem Src.plain_faultFree (inp : Bytes) : ({ inp := inp } : Src).faultFree := fun _ he => absurd he (by simp)
theorem Snk.plain_benign : ({} : Snk).benign := ⟨fun _ he => absurd he (by simp), fun _ he => absurd he (by simp)⟩

/-- a successful `flush()` is counted -/
theorem Snk.flush_true_flushes {k k' : Snk} (h : k.flush = (true, k')) : k'.flushes = k.flushes + 1 := by
  unfold Snk.flush at h
  split at h
  · simp only [Prod.mk.injEq, true_and] at h; subst h; rfl
  · simp only [Prod.mk.injEq, true_and] at h; subst h; rfl
  · simp at h

/-- one released chunk = exactly one successful flush (ALL scripts) -/
theorem writeChunk_flushes {k k' : Snk} {at_ : Nat × Nat} {pt : Bytes} (h : writeChunk k at_ pt = (true, k')) :
    k'.flushes = k.flushes + 1 := by
  unfold writeChunk at h
  split at h
  · simp at h
  · rename_i k1 hw
    obtain ⟨_, _, _, _, _, _, h5, _⟩ := Snk.writeAll_spec _ _ _ _ _ _ hw
    rw [Snk.flush_true_flushes h, h5]

/-- **flush count of `decrypt_chunks`.** Fault-free source, benign sink: one flush per released chunk, and when no chunk is
    released the sink is *the same object* — not one `write()` or `flush()` call was made. -/
theorem decLoopIO_flushes (A : Aead) (key aad : Bytes) (cs : Nat) :
    ∀ (fuel fuel0 ctr : Nat) (s : Src) (k : Snk) (res : Res) (s' : Src) (k' : Snk) (ws : List Bytes) (pres : Res),
    s.faultFree → k.benign → s.inp.length + 1 ≤ fuel → s.inp.length ≤ fuel0 →
    decLoopIO A key aad cs fuel ctr s k = (res, s', k') →
    decLoop A key aad cs fuel0 ctr s.inp = (ws, pres) →
    k'.flushes = k.flushes + ws.length ∧ (ws = [] → k' = k) := by
  intro fuel
  induction fuel with
  | zero => intro fuel0 ctr s k res s' k' ws pres _ _ hf; omega
  | succ f ih =>
    intro fuel0 ctr s k res s' k' ws pres hs hk hf hf0 hIO hP
    rw [← decLoop_fuel_succ A key aad cs fuel0 ctr s.inp hf0] at hP
    rw [decLoopIO_succ] at hIO
    rcases hrr : readRecordIO A key aad cs ctr s with ⟨o, s3⟩
    rw [hrr] at hIO
    obtain ⟨hsc, hchunk, _⟩ := readRecordIO_spec hrr
    cases o with
    | fail e =>
      simp only [Prod.mk.injEq] at hIO
      obtain ⟨rfl, rfl, rfl⟩ := hIO
      obtain ⟨_, h2⟩ := readRecordIO_fail_pure hrr fuel0
      rw [h2 hs] at hP
      simp only [Prod.mk.injEq] at hP; obtain ⟨rfl, rfl⟩ := hP
      exact ⟨by simp, fun _ => rfl⟩
    | chunk pt last =>
      obtain ⟨rest', hp1, hi3, hpos3, hlast⟩ := hchunk pt last rfl
      rw [decLoop_succ, hp1] at hP
      simp only at hP hIO
      have hlen := parse1_chunk_len hp1
      rcases hwc : writeChunk k (s3.pos, s3.nreads) pt with ⟨r, k2⟩
      rw [hwc] at hIO
      obtain ⟨p, L, ho, hpp, hpt, _, _, _, _, hbn⟩ := writeChunk_spec hwc
      obtain ⟨rfl, hk2⟩ := hbn hk
      have hfl := writeChunk_flushes hwc
      simp only at hIO
      cases last with
      | true =>
        have hr : rest' = [] := hlast rfl hs.noFalseEof
        subst hr
        simp only [if_true, List.length_nil, ne_eq, not_true_eq_false, if_false, Prod.mk.injEq] at hP hIO
        obtain ⟨rfl, rfl⟩ := hP
        obtain ⟨rfl, rfl, rfl⟩ := hIO
        exact ⟨by simp [hfl], fun h => by simp at h⟩
      | false =>
        simp only [Bool.false_eq_true, if_false, Prod.mk.injEq] at hP hIO
        obtain ⟨rfl, rfl⟩ := hP
        obtain ⟨h1, _⟩ := ih fuel0 (ctr+1) s3 k2 res s' k' _ _ (Src.faultFree_of_suffix hs hsc) hk2
            (by rw [hi3]; omega) (by rw [hi3]; omega) hIO (by rw [hi3])
        exact ⟨by rw [h1, hfl]; simp only [List.length_cons]; omega, fun h => by simp at h⟩

/-- a pure run that reports success has released at least one chunk (an empty file is one empty chunk) -/
theorem decLoop_ok_ne_nil {A : Aead} {key aad : Bytes} {cs fuel ctr : Nat} {inp : Bytes} {ws : List Bytes}
    (h : decLoop A key aad cs fuel ctr inp = (ws, .ok)) : ws ≠ [] := by
  cases fuel with
  | zero => simp [decLoop] at h
  | succ f =>
    rw [decLoop_succ] at h
    split at h
    · simp only [Prod.mk.injEq] at h
      have := h.2
      rename_i e hp
      unfold parse1 at hp
      subst this
      split at hp
      · simp at hp
      · split at hp
        · simp at hp
        · split at hp
          · simp at hp
          · split at hp <;> simp at hp
    · split at h
      · split at h
        · simp at h
        · simp only [Prod.mk.injEq] at h; rw [← h.1]; simp
      · simp only [Prod.mk.injEq] at h; rw [← h.1]; simp

/-- **`key_decrypt` as the CLI runs it.** Fault-free source, benign sink: result, sender and output are the pure ones, the
    number of flushes is the number of released chunks, and with no released chunk the sink was never called. -/
theorem keyDecryptIO_calls (P : Prims) (r rpk : Bytes) (src : Src) (k : Snk) (hs : src.faultFree) (hk : k.benign)
    {res pres : Res} {s' : Src} {k' : Snk} {sender psender : Option Bytes} {writes : List Bytes}
    (hIO : keyDecryptIO P r rpk src k = (res, s', k', sender))
    (hP : keyDecrypt P r rpk src.inp = (writes, pres, psender)) :
    res = pres ∧ sender = psender ∧ k'.out = k.out ++ writes.flatten ∧
    k'.flushes = k.flushes + writes.length ∧ (writes = [] → k' = k) ∧ (pres = .ok → writes ≠ [] ∧ ∃ spk, psender = some spk) := by
  rcases keyDecryptIO_cases hIO hP with ⟨rfl, rfl, hok, _, h⟩ | ⟨s2, pk, h, spk, _, _, _, hsc, hd, hpd, rfl, rfl⟩
  · rcases h with ⟨h1, h2, h3, _⟩ | ⟨h1, h2⟩
    · subst h3; exact ⟨h1, h2.symm, by simp, by simp, fun _ => rfl, fun h => absurd (h1.trans h) hok⟩
    · obtain ⟨h3, h4, h5⟩ := h2 hs.benign
      subst h4; exact ⟨by rw [h1, h3], h5.symm, by simp, by simp, fun _ => rfl, fun h => by rw [h3] at h; simp at h⟩
  · have hs2 := Src.faultFree_of_suffix hs hsc
    obtain ⟨h1, h2⟩ := decLoopIO_faultFree P.aead _ [] Generated.chunkSize hs2 hk (Nat.le_refl _) (Nat.le_refl _) hd hpd
    obtain ⟨h3, h4⟩ := decLoopIO_flushes P.aead _ [] Generated.chunkSize _ _ 0 s2 k res s' k' writes pres hs2 hk
      (Nat.le_refl _) (Nat.le_refl _) hd hpd
    refine ⟨h1, by rw [h1], h2, h3, h4, fun hok => ?_⟩
    subst hok
    exact ⟨decLoop_ok_ne_nil hpd, spk, by simp⟩

/-- **`pass_decrypt` as the CLI runs it.** -/
theorem passDecryptIO_calls (P : Prims) (pw : Bytes) (src : Src) (k : Snk) (hs : src.faultFree) (hk : k.benign)
    {res pres : Res} {s' : Src} {k' : Snk} {writes : List Bytes}
    (hIO : passDecryptIO P pw src k = (res, s', k'))
    (hP : passDecrypt P pw src.inp = (writes, pres)) :
    res = pres ∧ k'.out = k.out ++ writes.flatten ∧
    k'.flushes = k.flushes + writes.length ∧ (writes = [] → k' = k) ∧ (pres = .ok → writes ≠ []) := by
  rcases passDecryptIO_cases hIO hP with ⟨rfl, hok, _, h⟩ | ⟨s2, salt, _, _, _, hsc, hd, hpd⟩
  · rcases h with ⟨h1, h3, _⟩ | ⟨h1, h2⟩
    · subst h3; exact ⟨h1, by simp, by simp, fun _ => rfl, fun h => absurd (h1.trans h) hok⟩
    · obtain ⟨h3, h4⟩ := h2 hs.benign
      subst h4; exact ⟨by rw [h1, h3], by simp, by simp, fun _ => rfl, fun h => by rw [h3] at h; simp at h⟩
  · have hs2 := Src.faultFree_of_suffix hs hsc
    obtain ⟨h1, h2⟩ := decLoopIO_faultFree P.aead _ _ Generated.chunkSize hs2 hk (Nat.le_refl _) (Nat.le_refl _) hd hpd
    obtain ⟨h3, h4⟩ := decLoopIO_flushes P.aead _ _ Generated.chunkSize _ _ 0 s2 k res s' k' writes pres hs2 hk
      (Nat.le_refl _) (Nat.le_refl _) hd hpd
    refine ⟨h1, h2, h3, h4, fun hok => ?_⟩
    subst hok
    exact decLoop_ok_ne_nil hpd

end Kestrel
