/-
  Source — glue for KestrelProps/Source.lean: the property theorems restated over the definitions that are generated from
  the Rust source (`Kestrel.StreamSrc`, `Kestrel.KeyringSrc`, `Kestrel.ScryptSrc`).  Nothing new is proved about the model
  here; every lemma is the composition of a model-equality theorem (KestrelProofs/StreamSrc.lean, KeyringSrc.lean,
  ScryptSrc.lean) with a fact about the hand-written model, in a shape that makes the transfer of the property theorems a
  one-liner.
-/
import KestrelProofs.StreamSrc
import KestrelProofs.DecIO
import KestrelProofs.EncIO
import KestrelProps.C10dec
import KestrelProps.C10enc
import KestrelProps.KeyringSrc
import KestrelProps.C14
import KestrelProps.C16
import KestrelProps.C18src
namespace Kestrel
namespace Source
open Generated StreamSrc

/-! ### `key_decrypt`: the Rust `Result<PublicKey, DecryptError>` against the model's (class, sender) pair -/

/-- the model reports a sender exactly when it reports success -/
theorem keyDecryptIO_sender_iff (P : Prims) (r rpk : Bytes) (s : Src) (k : Snk) :
    (keyDecryptIO P r rpk s k).2.2.2 ≠ none ↔ (keyDecryptIO P r rpk s k).1 = .ok := by
  unfold keyDecryptIO
  repeat' split
  all_goals simp_all

theorem keyResult_ok_iff (res : Res) (sender : Option Bytes) (spk : Bytes) :
    keyResult res sender = .ok spk ↔ sender = some spk := by
  cases sender <;> simp [keyResult]

theorem keyResult_error_iff (res : Res) (sender : Option Bytes) (e : Res) :
    keyResult res sender = .error e ↔ sender = none ∧ e = collapseFormat res := by
  cases sender <;> simp [keyResult, eq_comm]

theorem collapseFormat_ok_iff (r : Res) : collapseFormat r = .ok ↔ r = .ok := by
  cases r <;> simp [collapseFormat]

theorem collapseFormat_of_ne_format {r : Res} (h : r ≠ .format) : collapseFormat r = r := by
  cases r <;> simp_all [collapseFormat]

/-- the run of the generated `key_decrypt`, with the components of the model run named -/
theorem key_decrypt_run (P : Prims) (r rpk : Bytes) (ff : AsymFileFormat) (s : Src) (k : Snk) (fuel : Nat)
    (hf : s.inp.length + 1 ≤ fuel) :
    ∃ res s' k' sender, keyDecryptIO P r rpk s k = (res, s', k', sender) ∧
      decrypt.key_decrypt P.aead P s k r rpk ff fuel = some (keyResult res sender, s', k') ∧
      (sender ≠ none ↔ res = .ok) := by
  refine ⟨(keyDecryptIO P r rpk s k).1, (keyDecryptIO P r rpk s k).2.1, (keyDecryptIO P r rpk s k).2.2.1,
    (keyDecryptIO P r rpk s k).2.2.2, rfl, key_decrypt_eq P r rpk ff s k fuel hf, keyDecryptIO_sender_iff P r rpk s k⟩

/-- the run of the generated `pass_decrypt`, with the components of the model run named -/
theorem pass_decrypt_run (P : Prims) (pw : Bytes) (ff : PassFileFormat) (s : Src) (k : Snk) (fuel : Nat)
    (hf : s.inp.length + 1 ≤ fuel) :
    ∃ res s' k', passDecryptIO P pw s k = (res, s', k') ∧
      decrypt.pass_decrypt P.aead P s k pw ff fuel = some (collapseFormat res, s', k') :=
  ⟨(passDecryptIO P pw s k).1, (passDecryptIO P pw s k).2.1, (passDecryptIO P pw s k).2.2, rfl,
    pass_decrypt_eq P pw ff s k fuel hf⟩

theorem collapseFormat_eq_of {r x : Res} (h : r = x) (hx : x ≠ .format) : collapseFormat r = x := by
  subst h; exact collapseFormat_of_ne_format hx

/-! ### from "whole chunks of the pure run" to "whole chunks of the authentic list" -/

theorem take_of_prefix {α} {ws cl : List α} (hpre : ws <+: cl) {j : Nat} (hj : j ≤ ws.length) : ws.take j = cl.take j := by
  obtain ⟨t, rfl⟩ := hpre
  rw [List.take_append_of_le_length hj]

theorem getElem?_of_prefix {α} {ws cl : List α} (hpre : ws <+: cl) {j : Nat} {w : α} (h : ws[j]? = some w) : cl[j]? = some w := by
  obtain ⟨t, rfl⟩ := hpre
  have hj : j < ws.length := (List.getElem?_eq_some_iff.mp h).1
  rw [List.getElem?_append_left hj]; exact h

/-- the whole-chunks description of an output, moved from the writes `ws` of the pure run to any list `cl` they are a prefix of -/
theorem whole_chunks_mono {ws cl : List Bytes} (hpre : ws <+: cl) {out0 out q : Bytes} {j : Nat} {C : Prop}
    (h1 : out = out0 ++ (ws.take j).flatten ++ q) (hj : j ≤ ws.length)
    (hq : q = [] ∨ (C ∧ ∃ w, ws[j]? = some w ∧ q <+: w)) :
    out = out0 ++ (cl.take j).flatten ++ q ∧ j ≤ cl.length ∧ (q = [] ∨ (C ∧ ∃ w, cl[j]? = some w ∧ q <+: w)) := by
  refine ⟨by rw [← take_of_prefix hpre hj]; exact h1, Nat.le_trans hj hpre.length_le, ?_⟩
  rcases hq with hq | ⟨hc, w, hw, hqw⟩
  · exact Or.inl hq
  · exact Or.inr ⟨hc, w, getElem?_of_prefix hpre hw, hqw⟩

/-- `LogSegs` only looks at the chunks that have a log segment: it survives extending the chunk list -/
theorem LogSegs_of_prefix : ∀ (ws cl : List Bytes) (segs : List (List WLog)) (base : Nat),
    ws <+: cl → LogSegs base ws segs → LogSegs base cl segs := by
  intro ws
  induction ws with
  | nil =>
    intro cl segs base _ h
    cases segs with
    | nil => cases cl <;> trivial
    | cons seg segs => exact absurd h (by simp [LogSegs])
  | cons w ws ih =>
    intro cl segs base hpre h
    obtain ⟨t, rfl⟩ := hpre
    cases segs with
    | nil => trivial
    | cons seg segs =>
      simp only [List.cons_append, LogSegs] at h ⊢
      exact ⟨h.1, h.2.1, h.2.2.1, ih _ segs _ ⟨t, rfl⟩ h.2.2.2⟩

theorem recEnd_of_prefix {ws cl : List Bytes} (hpre : ws <+: cl) {i : Nat} (hi : i < ws.length) : recEnd ws i = recEnd cl i := by
  unfold recEnd
  rw [take_of_prefix hpre (by omega : i + 1 ≤ ws.length)]

/-! ### headers of the honest files, as plain bytes -/

theorem passEncrypt_take36 (P : Prims) (w salt : Bytes) (reads : List Bytes) (hsalt : salt.length = 32) :
    (passEncrypt P w salt reads).1.take 36 = encPassMagic ++ salt := by
  unfold passEncrypt
  simp only []
  exact List.take_left' (by simp [hsalt]; rfl)

/-! ### the pure run as the common value of all fault-free presentations -/

theorem oneShot_faultFree (inp : Bytes) : (⟨inp, [], 0, 0⟩ : Src).faultFree := fun e he => by cases he

theorem emptySnk_benign : ({} : Snk).benign := by
  constructor <;> intro e he <;> cases he

theorem keyDecrypt_sender_iff (P : Prims) (r rpk inp : Bytes) :
    (keyDecrypt P r rpk inp).2.2 ≠ none ↔ (keyDecrypt P r rpk inp).2.1 = .ok := by
  obtain ⟨h1, h2, _⟩ := C10_dec_partition_independence_key P r rpk ⟨inp, [], 0, 0⟩ {} (oneShot_faultFree inp) emptySnk_benign
    (res := (keyDecryptIO P r rpk ⟨inp, [], 0, 0⟩ {}).1) (s' := (keyDecryptIO P r rpk ⟨inp, [], 0, 0⟩ {}).2.1)
    (k' := (keyDecryptIO P r rpk ⟨inp, [], 0, 0⟩ {}).2.2.1) (sender := (keyDecryptIO P r rpk ⟨inp, [], 0, 0⟩ {}).2.2.2)
    (writes := (keyDecrypt P r rpk inp).1) (pres := (keyDecrypt P r rpk inp).2.1) (psender := (keyDecrypt P r rpk inp).2.2) rfl rfl
  rw [← h1, ← h2]
  exact keyDecryptIO_sender_iff P r rpk _ _

/-- a fault-free presentation into a benign sink: the generated `key_decrypt` returns the pure result on the bytes -/
theorem key_decrypt_faultFree (P : Prims) (r rpk : Bytes) (ff : AsymFileFormat) (s : Src) (k : Snk) (fuel : Nat)
    (hf : s.inp.length + 1 ≤ fuel) (hs : s.faultFree) (hk : k.benign) :
    ∃ s' k', decrypt.key_decrypt P.aead P s k r rpk ff fuel =
        some (keyResult (keyDecrypt P r rpk s.inp).2.1 (keyDecrypt P r rpk s.inp).2.2, s', k') ∧
      k'.out = k.out ++ (keyDecrypt P r rpk s.inp).1.flatten := by
  obtain ⟨res, s', k', sender, hIO, hrun, _⟩ := key_decrypt_run P r rpk ff s k fuel hf
  obtain ⟨h1, h2, h3⟩ := C10_dec_partition_independence_key P r rpk s k hs hk hIO
    (writes := (keyDecrypt P r rpk s.inp).1) (pres := (keyDecrypt P r rpk s.inp).2.1) (psender := (keyDecrypt P r rpk s.inp).2.2) rfl
  exact ⟨s', k', by rw [hrun, h1, h2], h3⟩

/-- a fault-free presentation into a benign sink: the generated `pass_decrypt` returns the pure result on the bytes -/
theorem pass_decrypt_faultFree (P : Prims) (pw : Bytes) (ff : PassFileFormat) (s : Src) (k : Snk) (fuel : Nat)
    (hf : s.inp.length + 1 ≤ fuel) (hs : s.faultFree) (hk : k.benign) :
    ∃ s' k', decrypt.pass_decrypt P.aead P s k pw ff fuel = some (collapseFormat (passDecrypt P pw s.inp).2, s', k') ∧
      k'.out = k.out ++ (passDecrypt P pw s.inp).1.flatten := by
  obtain ⟨res, s', k', hIO, hrun⟩ := pass_decrypt_run P pw ff s k fuel hf
  obtain ⟨h1, h3⟩ := C10_dec_partition_independence_pass P pw s k hs hk hIO
    (writes := (passDecrypt P pw s.inp).1) (pres := (passDecrypt P pw s.inp).2) rfl
  exact ⟨s', k', by rw [hrun, h1], h3⟩

theorem collapseFormat_eq_iff {r x : Res} (h1 : x ≠ .format) (h2 : x ≠ .other) : collapseFormat r = x ↔ r = x := by
  cases r <;> cases x <;> simp_all [collapseFormat]

theorem keyResult_none (res : Res) : keyResult res none = .error (collapseFormat res) := rfl

theorem keyDecrypt_sender_none (P : Prims) (r rpk inp : Bytes) (h : (keyDecrypt P r rpk inp).2.1 ≠ .ok) :
    (keyDecrypt P r rpk inp).2.2 = none := by
  cases hs : (keyDecrypt P r rpk inp).2.2 with
  | none => rfl
  | some x => exact absurd ((keyDecrypt_sender_iff P r rpk inp).mp (by rw [hs]; simp)) h

theorem keyDecrypt_sender_some (P : Prims) (r rpk inp : Bytes) (h : (keyDecrypt P r rpk inp).2.1 = .ok) :
    ∃ S, (keyDecrypt P r rpk inp).2.2 = some S := by
  cases hs : (keyDecrypt P r rpk inp).2.2 with
  | none => exact absurd hs ((keyDecrypt_sender_iff P r rpk inp).mpr h)
  | some x => exact ⟨x, rfl⟩

/-! ### acceptance by the generated code on a source without forged end of stream ⇒ acceptance by the pure function -/

theorem decrypt_chunks_ok_pure (A : Aead) (key aad : Bytes) (cs : Nat) (s : Src) (k : Snk) (fuel : Nat)
    (hf : s.inp.length + 1 ≤ fuel) (hs : s.noFalseEof) {s' : Src} {k' : Snk}
    (h : decrypt.decrypt_chunks A s k key aad cs fuel = some (.ok, s', k')) :
    decryptChunks A key aad cs s.inp = ((decryptChunks A key aad cs s.inp).1, .ok) ∧
      k'.out = k.out ++ (decryptChunks A key aad cs s.inp).1.flatten := by
  obtain ⟨res, s'', k'', j, q, hrun, hout, _, _, hres⟩ :=
    dec_whole_chunks A key aad cs s k fuel hf hs (decryptChunks A key aad cs s.inp).1 (decryptChunks A key aad cs s.inp).2 rfl
  rw [h] at hrun
  simp only [Option.some.injEq, Prod.mk.injEq] at hrun
  obtain ⟨rfl, _, rfl⟩ := hrun
  obtain ⟨hp, hj, hq⟩ := hres rfl
  refine ⟨by rw [← hp], ?_⟩
  rw [hout, hq, hj, List.take_length, List.append_nil]

theorem pass_decrypt_ok_pure (P : Prims) (pw : Bytes) (ff : PassFileFormat) (s : Src) (k : Snk) (fuel : Nat)
    (hf : s.inp.length + 1 ≤ fuel) (hs : s.noFalseEof) {s' : Src} {k' : Snk}
    (h : decrypt.pass_decrypt P.aead P s k pw ff fuel = some (.ok, s', k')) :
    passDecrypt P pw s.inp = ((passDecrypt P pw s.inp).1, .ok) ∧ k'.out = k.out ++ (passDecrypt P pw s.inp).1.flatten := by
  obtain ⟨res, s'', k'', hIO, hrun⟩ := pass_decrypt_run P pw ff s k fuel hf
  rw [h] at hrun
  simp only [Option.some.injEq, Prod.mk.injEq] at hrun
  obtain ⟨hr, _, rfl⟩ := hrun
  have hok : res = .ok := (collapseFormat_ok_iff res).mp hr.symm
  obtain ⟨p, g1, _, g3⟩ := C10_dec_prefix_pass P pw s k hs hIO (writes := (passDecrypt P pw s.inp).1) (pres := (passDecrypt P pw s.inp).2) rfl
  obtain ⟨h1, h2⟩ := g3 hok
  exact ⟨by rw [← h2], by rw [g1, h1]⟩

theorem key_decrypt_ok_pure (P : Prims) (r rpk : Bytes) (ff : AsymFileFormat) (s : Src) (k : Snk) (fuel : Nat)
    (hf : s.inp.length + 1 ≤ fuel) (hs : s.noFalseEof) {S : Bytes} {s' : Src} {k' : Snk}
    (h : decrypt.key_decrypt P.aead P s k r rpk ff fuel = some (.ok S, s', k')) :
    keyDecrypt P r rpk s.inp = ((keyDecrypt P r rpk s.inp).1, .ok, some S) ∧ k'.out = k.out ++ (keyDecrypt P r rpk s.inp).1.flatten := by
  obtain ⟨res, s'', k'', sender, hIO, hrun, hiff⟩ := key_decrypt_run P r rpk ff s k fuel hf
  rw [h] at hrun
  simp only [Option.some.injEq, Prod.mk.injEq] at hrun
  obtain ⟨hr, _, rfl⟩ := hrun
  have hsd : sender = some S := (keyResult_ok_iff _ _ _).mp hr.symm
  have hok : res = .ok := hiff.mp (by rw [hsd]; simp)
  obtain ⟨p, g1, _, g3⟩ := C10_dec_prefix_key P r rpk s k hs hIO
    (writes := (keyDecrypt P r rpk s.inp).1) (pres := (keyDecrypt P r rpk s.inp).2.1) (psender := (keyDecrypt P r rpk s.inp).2.2) rfl
  obtain ⟨h1, h2, h3⟩ := g3 hok
  exact ⟨by rw [← h2, ← hsd, h3], by rw [g1, h1]⟩

/-- fault-free source, benign sink: the generated `decrypt_chunks` returns the pure result on the bytes -/
theorem decrypt_chunks_faultFree (A : Aead) (key aad : Bytes) (cs : Nat) (s : Src) (k : Snk) (fuel : Nat)
    (hf : s.inp.length + 1 ≤ fuel) (hs : s.faultFree) (hk : k.benign) :
    ∃ s' k', decrypt.decrypt_chunks A s k key aad cs fuel = some ((decryptChunks A key aad cs s.inp).2, s', k') ∧
      k'.out = k.out ++ (decryptChunks A key aad cs s.inp).1.flatten := by
  rw [decrypt_chunks_eq A key aad cs s k fuel hf]
  obtain ⟨h1, h2⟩ := decLoopIO_faultFree (A := A) (key := key) (aad := aad) (cs := cs) hs hk (Nat.le_refl _) (Nat.le_refl _)
    (fuel := s.inp.length + 1) (fuel0 := s.inp.length) (ctr := 0) (k := k)
    (res := (decryptChunksIO A key aad cs s k).1) (s' := (decryptChunksIO A key aad cs s k).2.1)
    (k' := (decryptChunksIO A key aad cs s k).2.2) (ws := (decryptChunks A key aad cs s.inp).1)
    (pres := (decryptChunks A key aad cs s.inp).2) rfl rfl
  exact ⟨_, _, by rw [← h1], h2⟩

/-! ### wrong magic number: the sink is untouched (every script) -/

theorem passDecryptIO_bad_magic (P : Prims) (pw : Bytes) (s : Src) (k : Snk) (hm : s.inp.take 4 ≠ encPassMagic) :
    (passDecryptIO P pw s k).2.2 = k ∧ (passDecryptIO P pw s k).1 ≠ .ok := by
  unfold passDecryptIO
  cases hr : Src.readExact (s.fuel 4) s 4 with | mk o s1 => ?_
  cases o with
  | none => simp
  | some magic =>
    have hb := (Src.readExact_some _ _ _ _ _ hr).1
    subst hb
    have h2 : ¬ s.inp.take 4 = decPassMagic := hm
    simp only [validFileFormat, if_neg h2]
    by_cases h1 : s.inp.take 4 = decAsymMagic
    · simp [if_pos h1]
    · simp [if_neg h1]

theorem keyDecryptIO_bad_magic (P : Prims) (r rpk : Bytes) (s : Src) (k : Snk) (hm : s.inp.take 4 ≠ encPrologue) :
    (keyDecryptIO P r rpk s k).2.2.1 = k ∧ (keyDecryptIO P r rpk s k).2.2.2 = none := by
  unfold keyDecryptIO
  cases hr : Src.readExact (s.fuel 4) s 4 with | mk o s1 => ?_
  cases o with
  | none => simp
  | some magic =>
    have hb := (Src.readExact_some _ _ _ _ _ hr).1
    subst hb
    have h2 : ¬ s.inp.take 4 = decAsymMagic := hm
    simp only [validFileFormat, if_neg h2]
    by_cases h1 : s.inp.take 4 = decPassMagic
    · simp [if_pos h1]
    · simp [if_neg h1]
/-! ### keyring: from the view `viewKeys` back to the generated structures -/

open KeyringSrc in
theorem viewKey_injective : ∀ {a b : KeyringSrc.Key}, viewKey a = viewKey b → a = b := by
  intro a b h
  obtain ⟨an, ⟨ap⟩, as⟩ := a
  obtain ⟨bn, ⟨bp⟩, bs⟩ := b
  simp only [viewKey, Keyring.Key.mk.injEq] at h
  obtain ⟨h1, h2, h3⟩ := h
  subst h1 h2
  cases as with
  | none => cases bs with
    | none => rfl
    | some y => simp at h3
  | some x => cases bs with
    | none => simp at h3
    | some y =>
      obtain ⟨x⟩ := x; obtain ⟨y⟩ := y
      simp only [Option.map_some, Option.some.injEq] at h3
      subst h3; rfl

open KeyringSrc in
theorem map_viewKey_injective {l1 l2 : List KeyringSrc.Key} (h : l1.map viewKey = l2.map viewKey) : l1 = l2 :=
  (List.map_inj_right (fun _ _ => viewKey_injective)).mp h

open KeyringSrc in
theorem mem_of_viewKey_mem {k : KeyringSrc.Key} {l : List KeyringSrc.Key} (h : viewKey k ∈ l.map viewKey) : k ∈ l := by
  obtain ⟨k', hk', he⟩ := List.mem_map.mp h
  rw [← viewKey_injective he]; exact hk'

open KeyringSrc in
/-- `Keyring::new` accepted ⇒ the model parser accepted, with the viewed keys -/
theorem new_ok_parse {t : Keyring.Str} {kr : KeyringSrc.Keyring} (h : KeyringSrc.Keyring.new t = .ok kr) :
    Keyring.parse t = some (viewKeys kr) := by
  have hp := keyring_source_parse t
  rw [h] at hp
  exact hp.symm

open KeyringSrc in
/-- the model parser accepted with keys that are the view of `keys` ⇒ `Keyring::new` returns exactly `⟨keys⟩` -/
theorem new_of_parse_view {t : Keyring.Str} {keys : List KeyringSrc.Key} (h : Keyring.parse t = some (keys.map viewKey)) :
    KeyringSrc.Keyring.new t = .ok ⟨keys⟩ := by
  obtain ⟨kr, hk, hv⟩ := new_of_parse_some t _ h
  obtain ⟨ks⟩ := kr
  have : ks = keys := map_viewKey_injective hv
  rw [hk, this]

open KeyringSrc in
theorem pk_try_from_ok_iff (s : Keyring.Str) (e : EncodedPk) :
    EncodedPk.try_from s = .ok e ↔ Keyring.encodedPkOk s = true ∧ e = ⟨s⟩ := by
  obtain ⟨h1, h2⟩ := keyring_source_encoded_pk_try_from s
  constructor
  · intro h; exact ⟨h1.mp ⟨e, h⟩, h2 e h⟩
  · rintro ⟨hk, rfl⟩
    obtain ⟨e', he'⟩ := h1.mpr hk
    rw [he', h2 e' he']

open KeyringSrc in
theorem sk_try_from_ok_iff (s : Keyring.Str) (e : EncodedSk) :
    EncodedSk.try_from s = .ok e ↔ Keyring.encodedSkOk s = true ∧ e = ⟨s⟩ := by
  obtain ⟨h1, h2⟩ := keyring_source_encoded_sk_try_from s
  constructor
  · intro h; exact ⟨h1.mp ⟨e, h⟩, h2 e h⟩
  · rintro ⟨hk, rfl⟩
    obtain ⟨e', he'⟩ := h1.mpr hk
    rw [he', h2 e' he']

/-! ### locked private keys -/

/-- the key-derivation of the keyring code is the GENERATED scrypt at kestrel's parameters -/
theorem lockKdf_eq_src (pw salt : Bytes) : Keyring.lockKdf pw salt = ScryptSrc.scrypt pw salt 32768 8 1 32 := by
  rw [C18_source_eq_spec pw salt 32768 8 1 32 (by unfold ScryptSrc.scrypt_pre; decide)]
  unfold Keyring.lockKdf
  rw [show Generated.krScryptN = 32768 from rfl, show Generated.krScryptR = 8 from rfl, show Generated.krScryptP = 1 from rfl]

open KeyringSrc in
theorem lock_eq_mk (sk : RsStr.PrivateKey) (pw salt : Bytes) :
    KeyringSrc.Keyring.lock_private_key sk pw salt = ⟨Keyring.lockPrivateKey sk.key pw salt⟩ := by
  have := keyring_source_lock_private_key sk pw salt
  rw [← this]

open KeyringSrc in
theorem try_from_lock (sk : RsStr.PrivateKey) (pw salt : Bytes) (hsk : sk.key.length = 32) (hs : salt.length = 32) :
    EncodedSk.try_from (KeyringSrc.Keyring.lock_private_key sk pw salt)._0 = .ok (KeyringSrc.Keyring.lock_private_key sk pw salt) := by
  rw [lock_eq_mk]
  exact (sk_try_from_ok_iff _ _).mpr ⟨C15_encodedSkOk sk.key pw salt hsk hs, rfl⟩

open KeyringSrc in
/-- unlocking what `lock_private_key` produced, under ANY password: the model's answer (no `match` in the statement) -/
theorem unlock_lock_any (sk : RsStr.PrivateKey) (pl p salt : Bytes) (hsk : sk.key.length = 32) (hs : salt.length = 32) :
    (∀ k, Keyring.unlockPrivateKey (Keyring.lockPrivateKey sk.key pl salt) p = .ok k →
      KeyringSrc.Keyring.unlock_private_key (KeyringSrc.Keyring.lock_private_key sk pl salt) p = .ok ⟨k⟩) ∧
    (∀ err, Keyring.unlockPrivateKey (Keyring.lockPrivateKey sk.key pl salt) p = .error err →
      KeyringSrc.Keyring.unlock_private_key (KeyringSrc.Keyring.lock_private_key sk pl salt) p = .error (errClass err)) := by
  have ht : EncodedSk.try_from (Keyring.lockPrivateKey sk.key pl salt) = .ok (KeyringSrc.Keyring.lock_private_key sk pl salt) := by
    have := try_from_lock sk pl salt hsk hs
    rw [lock_eq_mk] at this ⊢; exact this
  generalize hu : Keyring.unlockPrivateKey (Keyring.lockPrivateKey sk.key pl salt) p = u
  have h := (keyring_source_unlock_private_key (Keyring.lockPrivateKey sk.key pl salt) p).1 _ ht
  rw [hu] at h
  constructor
  · intro k hk; rw [hk] at h; exact h
  · intro err hk; rw [hk] at h; exact h
/-- the `kdf` field of the executable primitive record is the GENERATED scrypt at kestrel's parameters -/
theorem concrete_kdf_eq_src (pw salt : Bytes) : concretePrims.kdf pw salt = ScryptSrc.scrypt pw salt 32768 8 1 32 := by
  rw [C18_source_eq_spec pw salt 32768 8 1 32 (by unfold ScryptSrc.scrypt_pre; decide)]
  show Scrypt.Spec.scrypt pw salt Generated.scryptN Generated.scryptR Generated.scryptP 32 = _
  rw [show Generated.scryptN = 32768 from rfl, show Generated.scryptR = 8 from rfl, show Generated.scryptP = 1 from rfl]

end Source
end Kestrel
