/-
  Round trips of the four public entry points at the pure level.
-/
import KestrelModel.File
import KestrelProofs.Chunks
import KestrelProofs.Noise
namespace Kestrel
open Generated

/-! obligations on the generated constants: re-checked against the current source on every run -/
theorem gen_asym_magic_agree : encPrologue = decAsymMagic := by decide
theorem gen_pass_magic_agree : encPassMagic = decPassMagic := by decide
theorem gen_magics_differ : decAsymMagic ≠ decPassMagic := by decide
theorem gen_prologue_len : encPrologue.length = 4 := by decide
theorem gen_passmagic_len : encPassMagic.length = 4 := by decide
theorem gen_chunkSize_lt : chunkSize < 2^32 := by decide
theorem gen_chunkSize_pos : 0 < chunkSize := by decide
theorem gen_handshakeLen : handshakeLen = 128 := by decide
theorem gen_saltLen : saltLen = 32 := by decide
theorem gen_tagSize : tagSize = 16 := by decide
theorem gen_hdr_offsets : encHdrCtr = (0, 8) ∧ encHdrLast = (8, 12) ∧ encHdrLen = (12, 16) ∧ decHdrLast = (8, 12) ∧ decHdrLen = (12, 16) := by decide
theorem gen_nonce_offset : nonceOffset = 4 := by decide
theorem gen_last_flag : lastFlagValue = 1 := by decide
theorem gen_protocol_name : protocolNameBytes = [78,111,105,115,101,95,88,95,50,53,53,49,57,95,67,104,97,67,104,97,80,111,108,121,95,83,72,65,50,53,54] := by decide
theorem gen_protocol_name_short : protocolNameBytes.length ≤ 32 := by decide
theorem gen_token_pattern : tokenPattern = [.E, .ES, .S, .SS] := by decide

theorem validFileFormat_asym : validFileFormat encPrologue = some true := by
  simp [validFileFormat, gen_asym_magic_agree]

theorem validFileFormat_pass : validFileFormat encPassMagic = some false := by
  have h : encPassMagic ≠ decAsymMagic := by decide
  unfold validFileFormat
  rw [if_neg h, if_pos gen_pass_magic_agree]

/-- key mode: decrypt ∘ encrypt at the pure level, for any lawful primitives -/
theorem keyDecrypt_keyEncrypt (P : Prims) (hP : P.Lawful) (s spk r rpk e epk pk d1 d2 : Bytes) (reads : List Bytes)
    (hE : epk.length = 32) (hS : spk.length = 32) (hK : pk.length = 32)
    (h1 : P.dh e rpk = some d1) (h2 : P.dh s rpk = some d2)
    (h1' : P.dh r epk = some d1) (h2' : P.dh r spk = some d2)
    (hwf : wellFormedReads reads) (hle : ∀ c ∈ reads, c.length ≤ chunkSize) :
    ∃ ct, keyEncrypt P s spk rpk e epk pk reads = (ct, .ok) ∧
      keyDecrypt P r rpk ct = (fileChunks reads, .ok, some spk) ∧
      ct.length = 4 + 128 + 32 * (fileChunks reads).length + reads.flatten.length := by
  obtain ⟨encS, encP, hh, hw, _, _, _⟩ := Noise.writeMessage_ok P encPrologue s spk rpk e epk pk d1 d2 h1 h2
  have hml := Noise.writeMessage_length P hP _ _ _ _ _ _ _ _ _ hE hS hw
  have hrd := Noise.readMessage_writeMessage P hP encPrologue s spk r rpk e epk pk d1 d2 _ _ hE hS (by omega) h1 h2 h1' h2' hw
  generalize hmsg : epk ++ encS ++ encP = msg at *
  have hml' : msg.length = 128 := by omega
  have hfk := hP.hkdfFile_len pk hh
  generalize hfkd : P.hkdfFile pk hh = fk at *
  refine ⟨encPrologue ++ msg ++ serialize P.aead fk [] be64 0 (fileChunks reads), ?_, ?_, ?_⟩
  · simp [keyEncrypt, hw, hfkd, encryptChunks_eq P.aead fk [] reads hwf]
  · have hlen : ¬ (encPrologue ++ msg ++ serialize P.aead fk [] be64 0 (fileChunks reads)).length < 4 := by
      simp [gen_prologue_len]
    have t1 : (encPrologue ++ msg ++ serialize P.aead fk [] be64 0 (fileChunks reads)).take 4 = encPrologue := by
      rw [List.append_assoc, ← gen_prologue_len]; simp
    have t2 : (encPrologue ++ msg ++ serialize P.aead fk [] be64 0 (fileChunks reads)).drop 4 =
        msg ++ serialize P.aead fk [] be64 0 (fileChunks reads) := by
      rw [List.append_assoc, ← gen_prologue_len]; simp
    have t3 : (msg ++ serialize P.aead fk [] be64 0 (fileChunks reads)).take handshakeLen = msg := by
      rw [gen_handshakeLen, ← hml']; simp
    have t4 : (msg ++ serialize P.aead fk [] be64 0 (fileChunks reads)).drop handshakeLen =
        serialize P.aead fk [] be64 0 (fileChunks reads) := by
      rw [gen_handshakeLen, ← hml']; simp
    have hlen2 : ¬ (msg ++ serialize P.aead fk [] be64 0 (fileChunks reads)).length < handshakeLen := by
      rw [gen_handshakeLen]; simp [hml']
    have hdec := decLoop_serialize P.aead hP.aead fk [] hfk chunkSize gen_chunkSize_lt be64 be64_length
      (fileChunks reads) 0 _ (fileChunks_ne_nil reads) (fileChunks_le reads chunkSize hle) (Nat.le_refl _)
    unfold keyDecrypt
    rw [if_neg hlen]
    simp only [t1, t2, validFileFormat_asym, if_neg hlen2, t3, t4, hrd, hK, ne_eq, not_true_eq_false, if_false, hfkd,
      decryptChunks, hdec, if_true]
  · simp only [List.length_append, gen_prologue_len, hml',
      serialize_length P.aead hP.aead fk [] hfk be64 be64_length, fileChunks_join reads hwf]
    omega

/-- password mode: decrypt ∘ encrypt at the pure level -/
theorem passDecrypt_passEncrypt (P : Prims) (hA : P.aead.Lawful) (pw salt : Bytes) (reads : List Bytes)
    (hsalt : salt.length = 32) (hkdf : (P.kdf pw salt).length = 32)
    (hwf : wellFormedReads reads) (hle : ∀ c ∈ reads, c.length ≤ chunkSize) :
    ∃ ct, passEncrypt P pw salt reads = (ct, .ok) ∧
      passDecrypt P pw ct = (fileChunks reads, .ok) ∧
      ct.length = 4 + 32 + 32 * (fileChunks reads).length + reads.flatten.length := by
  generalize hkd : P.kdf pw salt = key at *
  refine ⟨encPassMagic ++ salt ++ serialize P.aead key encPassMagic be64 0 (fileChunks reads), ?_, ?_, ?_⟩
  · simp [passEncrypt, hkd, encryptChunks_eq P.aead key encPassMagic reads hwf]
  · have hlen : ¬ (encPassMagic ++ salt ++ serialize P.aead key encPassMagic be64 0 (fileChunks reads)).length < 4 := by
      simp [gen_passmagic_len]
    have t1 : (encPassMagic ++ salt ++ serialize P.aead key encPassMagic be64 0 (fileChunks reads)).take 4 = encPassMagic := by
      rw [List.append_assoc, ← gen_passmagic_len]; simp
    have t2 : (encPassMagic ++ salt ++ serialize P.aead key encPassMagic be64 0 (fileChunks reads)).drop 4 =
        salt ++ serialize P.aead key encPassMagic be64 0 (fileChunks reads) := by
      rw [List.append_assoc, ← gen_passmagic_len]; simp
    have t3 : (salt ++ serialize P.aead key encPassMagic be64 0 (fileChunks reads)).take 32 = salt := by
      rw [← hsalt]; simp
    have t4 : (salt ++ serialize P.aead key encPassMagic be64 0 (fileChunks reads)).drop 32 =
        serialize P.aead key encPassMagic be64 0 (fileChunks reads) := by
      rw [← hsalt]; simp
    have hlen2 : ¬ (salt ++ serialize P.aead key encPassMagic be64 0 (fileChunks reads)).length < 32 := by
      simp [hsalt]
    have hdec := decLoop_serialize P.aead hA key encPassMagic hkdf chunkSize gen_chunkSize_lt be64 be64_length
      (fileChunks reads) 0 _ (fileChunks_ne_nil reads) (fileChunks_le reads chunkSize hle) (Nat.le_refl _)
    unfold passDecrypt
    rw [if_neg hlen]
    simp only [t1, t2, validFileFormat_pass, if_neg hlen2, t3, t4, hkd, decryptChunks, hdec]
  · simp only [List.length_append, gen_passmagic_len, hsalt,
      serialize_length P.aead hA key encPassMagic hkdf be64 be64_length, fileChunks_join reads hwf]
    omega

end Kestrel
