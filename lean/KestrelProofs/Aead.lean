/-
  Functional laws of the concrete RFC 8439 AEAD (no security content):
  open ∘ seal = id, length, short inputs rejected, and "what opens is exactly what seal produces".
-/
import KestrelModel.Aead
namespace Kestrel

theorem xorBytes_length (a b : Bytes) : (xorBytes a b).length = min a.length b.length := by
  induction a generalizing b with
  | nil => simp [xorBytes]
  | cons x xs ih => cases b with
    | nil => simp [xorBytes]
    | cons y ys => simp [xorBytes, ih]

theorem xorBytes_cancel (a b : Bytes) (h : a.length ≤ b.length) : xorBytes (xorBytes a b) b = a := by
  induction a generalizing b with
  | nil => cases b <;> simp [xorBytes]
  | cons x xs ih => cases b with
    | nil => simp at h
    | cons y ys =>
      simp only [xorBytes, List.cons.injEq]
      refine ⟨?_, ih ys (by simpa using h)⟩
      rw [UInt8.xor_assoc, UInt8.xor_self, UInt8.xor_zero]

theorem u32le_length (w : UInt32) : (u32le w).length = 4 := rfl
theorem u32be_length (w : UInt32) : (u32be w).length = 4 := rfl

theorem ChaSt.bytes_length (s : ChaSt) : s.bytes.length = 64 := by
  simp [ChaSt.bytes, u32le_length]

theorem chachaBlock_length (k n : List UInt32) (ctr : UInt32) (hk : k.length = 8) (hn : n.length = 3) :
    (chachaBlock k ctr n).length = 64 := by
  match k, hk with
  | [k0,k1,k2,k3,k4,k5,k6,k7], _ =>
    match n, hn with
    | [n0,n1,n2], _ => simp [chachaBlock, ChaSt.bytes_length]

theorem chachaXor_length (k n : List UInt32) (hk : k.length = 8) (hn : n.length = 3) :
    ∀ (fuel : Nat) (ctr : UInt32) (data : Bytes), data.length ≤ fuel →
      (chachaXor k n fuel ctr data).length = data.length := by
  intro fuel
  induction fuel with
  | zero => intro ctr data h; cases data <;> simp_all [chachaXor]
  | succ f ih =>
    intro ctr data h
    cases data with
    | nil => simp [chachaXor]
    | cons d ds =>
      simp only [chachaXor, List.length_append, xorBytes_length, chachaBlock_length k n ctr hk hn]
      rw [ih]
      · simp only [List.length_take, List.length_drop, List.length_cons]; omega
      · simp only [List.length_drop, List.length_cons] at *; omega

theorem chachaXor_cancel (k n : List UInt32) (hk : k.length = 8) (hn : n.length = 3) :
    ∀ (fuel : Nat) (ctr : UInt32) (data : Bytes), data.length ≤ fuel →
      chachaXor k n fuel ctr (chachaXor k n fuel ctr data) = data := by
  intro fuel
  induction fuel with
  | zero => intro ctr data h; cases data <;> simp_all [chachaXor]
  | succ f ih =>
    intro ctr data h
    cases data with
    | nil => simp [chachaXor]
    | cons d ds =>
      have hb := chachaBlock_length k n ctr hk hn
      generalize hdata : d :: ds = data at *
      have hne : data ≠ [] := by rw [← hdata]; simp
      have hlen1 : (xorBytes (data.take 64) (chachaBlock k ctr n)).length = min data.length 64 := by
        simp [xorBytes_length, hb, Nat.min_comm]
      have hrest : (data.drop 64).length ≤ f := by
        have : 0 < data.length := List.length_pos_iff.mpr hne
        simp only [List.length_drop]; omega
      have hstep : chachaXor k n (f+1) ctr data =
          xorBytes (data.take 64) (chachaBlock k ctr n) ++ chachaXor k n f (ctr+1) (data.drop 64) := by
        rw [← hdata]; simp [chachaXor]
      rw [hstep]
      generalize hA : xorBytes (data.take 64) (chachaBlock k ctr n) = A at *
      generalize hB : chachaXor k n f (ctr+1) (data.drop 64) = B at *
      have hBlen : B.length = (data.drop 64).length := by
        rw [← hB]; exact chachaXor_length k n hk hn f (ctr+1) _ hrest
      have hABne : A ++ B ≠ [] := by
        intro h0
        have : (A ++ B).length = 0 := by rw [h0]; rfl
        have : 0 < data.length := List.length_pos_iff.mpr hne
        simp only [List.length_append, hlen1, hBlen, List.length_drop] at *; omega
      obtain ⟨e, es, hes⟩ := List.exists_cons_of_ne_nil hABne
      have hstep2 : chachaXor k n (f+1) ctr (A ++ B) =
          xorBytes ((A ++ B).take 64) (chachaBlock k ctr n) ++ chachaXor k n f (ctr+1) ((A ++ B).drop 64) := by
        rw [hes]; simp [chachaXor]
      rw [hstep2]
      by_cases hge : 64 ≤ data.length
      · have hA64 : A.length = 64 := by omega
        have ht : (A ++ B).take 64 = A := by rw [← hA64]; simp
        have hd : (A ++ B).drop 64 = B := by rw [← hA64]; simp
        rw [ht, hd, ← hA, xorBytes_cancel _ _ (by simp [hb]; omega), ← hB, ih _ _ hrest, List.take_append_drop]
      · have hBnil : B = [] := by
          apply List.eq_nil_of_length_eq_zero; simp only [hBlen, List.length_drop]; omega
        have hAl : A.length ≤ 64 := by omega
        have ht : (A ++ B).take 64 = A := by rw [hBnil]; simp; exact List.take_of_length_le hAl
        have hd : (A ++ B).drop 64 = [] := by rw [hBnil]; simp; omega
        have htk : data.take 64 = data := List.take_of_length_le (by omega)
        rw [ht, hd, ← hA, xorBytes_cancel _ _ (by simp [hb]; omega), htk]
        cases f <;> simp [chachaXor]

theorem natLE_length (n v : Nat) : (natLE n v).length = n := by
  induction n generalizing v with
  | zero => rfl
  | succ n ih => simp [natLE, ih]

theorem poly1305_length (key msg : Bytes) : (poly1305 key msg).length = 16 := by
  simp [poly1305, natLE_length]

theorem words32le_length (b : Bytes) (n : Nat) (h : b.length = 4 * n) : (words32le b).length = n := by
  induction n generalizing b with
  | zero => cases b with
    | nil => rfl
    | cons _ _ => simp at h
  | succ n ih =>
    match b, h with
    | b0 :: b1 :: b2 :: b3 :: rest, h =>
      simp only [words32le, List.length_cons]
      rw [ih rest (by simp only [List.length_cons] at h; omega)]

/-- RFC 8439 AEAD: opening what was sealed returns the plaintext, for every key, nonce, AAD, plaintext. -/
theorem aeadOpen_aeadSeal (key nonce ad pt : Bytes) (hk : key.length = 32) (hn : nonce.length = 12) :
    aeadOpen key nonce ad (aeadSeal key nonce ad pt) = some pt := by
  have hk8 := words32le_length key 8 (by omega)
  have hn3 := words32le_length nonce 3 (by omega)
  unfold aeadOpen aeadSeal
  simp only []
  generalize hct : chachaXor (words32le key) (words32le nonce) pt.length 1 pt = ct
  have hctl : ct.length = pt.length := by
    rw [← hct]; exact chachaXor_length _ _ hk8 hn3 _ _ _ (Nat.le_refl _)
  generalize htag : poly1305 (List.take 32 (chachaBlock (words32le key) 0 (words32le nonce))) (macData ad ct) = tag
  have htl : tag.length = 16 := by rw [← htag]; exact poly1305_length _ _
  have h1 : ¬ (ct ++ tag).length < 16 := by simp [htl]
  have h2 : (ct ++ tag).length - 16 = ct.length := by simp [htl]
  rw [if_neg h1, h2, List.take_left', List.drop_left']
  · rw [htag]; simp only [beq_self_eq_true, if_true, Option.some.injEq]
    rw [← hct, chachaXor_length _ _ hk8 hn3 _ _ _ (Nat.le_refl _)]
    exact chachaXor_cancel _ _ hk8 hn3 _ _ _ (Nat.le_refl _)
  · rfl
  · rfl

theorem aeadOpen_short (key nonce ad c : Bytes) (h : c.length < 16) : aeadOpen key nonce ad c = none := by
  simp [aeadOpen, h]

theorem aeadSeal_length (key nonce ad pt : Bytes) (hk : key.length = 32) (hn : nonce.length = 12) :
    (aeadSeal key nonce ad pt).length = pt.length + 16 := by
  have hk8 := words32le_length key 8 (by omega)
  have hn3 := words32le_length nonce 3 (by omega)
  simp [aeadSeal, poly1305_length, chachaXor_length _ _ hk8 hn3 _ _ _ (Nat.le_refl _)]

theorem aeadOpen_length (key nonce ad c p : Bytes) (hk : key.length = 32) (hn : nonce.length = 12)
    (h : aeadOpen key nonce ad c = some p) : p.length + 16 = c.length := by
  have hk8 := words32le_length key 8 (by omega)
  have hn3 := words32le_length nonce 3 (by omega)
  unfold aeadOpen at h
  split at h
  · simp at h
  · rename_i hlen
    simp only [] at h
    split at h
    · simp only [Option.some.injEq] at h
      rw [← h, chachaXor_length _ _ hk8 hn3 _ _ _ (Nat.le_refl _)]
      simp only [List.length_take]; omega
    · simp at h

/-- The decryptor is strict: whatever opens is exactly the sealing of what it opens to. -/
theorem aeadOpen_sound (key nonce ad c p : Bytes) (hk : key.length = 32) (hn : nonce.length = 12)
    (h : aeadOpen key nonce ad c = some p) : c = aeadSeal key nonce ad p := by
  have hk8 := words32le_length key 8 (by omega)
  have hn3 := words32le_length nonce 3 (by omega)
  unfold aeadOpen at h
  split at h
  · simp at h
  · rename_i hlen
    simp only [] at h
    split at h
    · rename_i htag
      simp only [Option.some.injEq] at h
      have htag' := eq_of_beq htag
      unfold aeadSeal
      simp only []
      have hctl : (chachaXor (words32le key) (words32le nonce) (List.take (c.length - 16) c).length 1
          (List.take (c.length - 16) c)).length = (List.take (c.length - 16) c).length :=
        chachaXor_length _ _ hk8 hn3 _ _ _ (Nat.le_refl _)
      rw [← h, hctl, chachaXor_cancel _ _ hk8 hn3 _ _ _ (Nat.le_refl _), htag', List.take_append_drop]
    · simp at h

theorem noiseNonce_length (n : Nat) : (noiseNonce n).length = 12 := by
  simp [noiseNonce, natLE_length]

theorem chapolyNoise_lawful : chapolyNoise.Lawful where
  dec_enc k n ad p hk := aeadOpen_aeadSeal k (noiseNonce n) ad p hk (noiseNonce_length n)
  enc_length k n ad p hk := aeadSeal_length k (noiseNonce n) ad p hk (noiseNonce_length n)
  dec_sound k n ad c p hk h := aeadOpen_sound k (noiseNonce n) ad c p hk (noiseNonce_length n) h

end Kestrel
