/-
  Lemmas for KestrelProps/NoiseSrc.lean: the Noise X handshake and the crypto wrappers of lib.rs as translated mechanically by
  tools/rs2lean_noise.py (`Kestrel.NoiseSrc`, KestrelModel/GeneratedNoise.lean) against the hand-written model
  (KestrelModel/Noise.lean, Aead.lean, Prim/Sha256.lean, RsIO.lean).

  How these proofs are written (so that a harmless change of the Rust source does not break them, and a breaking one does).
  The generated file changes with every maintenance change of noise.rs / lib.rs: helpers are extracted, literals get names, locals
  are renamed, `if` / early `return` / `match` / `?` are exchanged for one another.  The translator emits named constants and
  functions outside its TARGETS table as `@[simp] def`.  The lemmas below therefore
    * never restate a piece of a generated definition: each is `<generated function> args = <model term>`, and the proof reaches
      the model term by `simp [<the function>, <lemmas about the functions it calls>]` after a case split on what the MODEL
      branches on (`O.dh ..`, `msg.length < 96`, `Sym.decryptAndHash ..`); nothing is matched against the shape of the definition
      (no `generalize` / `rw` of a generated subterm, no `simp only` with a fixed list of the locals' equations);
    * treat constructors and accessors (`KeyPair.new`, `as_bytes`, `has_key`, …) as transparent (`attribute [local simp]` below);
    * facts about slices are general lemmas with side conditions `simp` discharges (`copyFromSlice_full`), not equations about
      `List.replicate 12 0` at one offset.
  Sensitivity is not traded: every lemma still states equality with the hand-written model for all inputs.
  tools/selftest_noise.py re-translates and re-builds this file for the harmless patches seeded/B3-b1..b6, B4-b1..b6, twenty-two
  further hand-made harmless rewrites, every seeded breaking patch on noise.rs / lib.rs, the ten hand-made breaking edits of the
  original robustness test (ss DH error ignored; es / ss key pairs swapped; `mix_hash(re)` dropped; nonce big-endian; nonce offset
  4 → 0; payload-length check removed; `< 96` → `< 80`; second `hkdf_noise` output from 0x01) and thirty-four breaking edits on top
  of the harmless rewrites; twenty of them (K15 - K34) misuse exactly the constructs the second batch of harmless patches needs
  (struct pattern in `let`, `match` on a call with effects, `Result::map` / `Option::map`, `split_at`, a branching expression with
  statements as the value of a `let` or of the function, `Option::insert`, a dropped redundant call) and must be caught HERE, by a
  lemma that no longer holds, not by a refusal of the translator.
  The second batch needed one addition to this file: `Except.map` computes on constructors and mapping the identity is nothing
  (`except_map_ok`, `except_map_error`, `except_map_id'`); everything else went through the lemmas as they were — in particular
  `new_eq` proves that the `initialize_key(None)` call B4-b5 drops was redundant (and fails, K26, when it is not).
-/
import KestrelModel.GeneratedNoise
import KestrelModel.Noise
import KestrelProofs.Prims
import KestrelProofs.Aead
set_option linter.unusedSimpArgs false
set_option linter.unusedVariables false     -- (a hypothesis a harmless rewrite makes unnecessary, e.g. `hpub` of `to_public_eq`, is not an error)
namespace Kestrel.NoiseSrc
open Kestrel Kestrel.Rs Kestrel.RsNoise

/-! ### constructors and accessors

  The translator marks named constants and extracted helper functions `@[simp]`, so `simp` sees through them.  The wanted
  (TARGETS) functions below are constructors and accessors that a maintenance change may start or stop using anywhere
  (`KeyPair::new(a, b)` for a struct literal, `x.as_bytes()` for `&x.key`): in this file `simp` sees through them too. -/
attribute [local simp] KeyPair.new PayloadKey.new PayloadKey.as_bytes PublicKey.as_bytes PrivateKey.as_bytes PrivateKey.generate
  CipherState.new CipherState.initialize_key CipherState.has_key CipherState.set_nonce SymmetricState.get_handshake_hash

/-! ### the record of primitives the translated wrappers compute over orion -/

/-- `Kestrel.Prims` as the TRANSLATED wrapper functions of lib.rs compute it from the orion functions `O`
    (`kdf`, scrypt, is not used by the handshake; it is a parameter) -/
def primsOf (O : Orion) (kdf : Bytes → Bytes → Bytes) : Prims where
  aead := { enc := chapoly_encrypt_noise O, dec := fun k n ad c => (chapoly_decrypt_noise O k n ad c).toOption }
  hash := sha256 O
  hkdf2 := hkdf_noise O
  hkdfFile pk h := hkdf_sha256 O [] pk h 32
  dh k u := (x25519 O k u).toOption
  pub k := (x25519_derive_public O k).toOption
  kdf := kdf

/-! ### small facts about the combinators -/

theorem unwrap_eq_getD (o : Option Bytes) : Rs.unwrap o = o.getD [] := by cases o <;> rfl

theorem okOr_toOption (o : Option α) : (Rs.okOr o).toOption = o := by cases o <;> rfl

theorem mapError_okOr (o : Option α) (f : Unit → Unit) : Except.mapError f (Rs.okOr o) = Rs.okOr o := by
  cases o <;> rfl

/-- `r.map(|x| e)` on a `Result` (the translator writes `Except.map`): on a constructor it computes -/
@[simp] theorem except_map_ok (f : α → β) (a : α) : Except.map f (Except.ok a : Except ε α) = .ok (f a) := rfl
@[simp] theorem except_map_error (f : α → β) (e : ε) : Except.map f (Except.error e : Except ε α) = .error e := rfl
/-- … and mapping the identity (what wrapping a value in a one-field struct, or unwrapping an orion newtype, translates to) is nothing -/
@[simp] theorem except_map_id' (r : Except ε α) : Except.map (fun x => x) r = r := by cases r <;> rfl

theorem copyFromSlice_full (dst src : List α) (h : dst.length = src.length) : Rs.copyFromSlice dst src = src := by
  simp [Rs.copyFromSlice, h]

/-! ### the wrappers of lib.rs -/

@[simp] theorem sha256_eq (O : Orion) (d : Bytes) : sha256 O d = O.sha256 d := rfl
@[simp] theorem hmac_sha256_eq (O : Orion) (k d : Bytes) : hmac_sha256 O k d = O.hmac k d := rfl

theorem x25519_eq (O : Orion) (k u : Bytes) : x25519 O k u = Rs.okOr (O.dh k u) := by
  unfold x25519
  cases h : O.dh k u <;> simp [Rs.okOr, Except.mapError, h]

theorem x25519_derive_public_eq (O : Orion) (k : Bytes) : x25519_derive_public O k = Rs.okOr (O.pub k) := by
  unfold x25519_derive_public
  cases h : O.pub k <;> simp [Rs.okOr, Except.mapError, h]

@[simp] theorem primsOf_dh (O : Orion) (kdf) (k u : Bytes) : (primsOf O kdf).dh k u = O.dh k u := by
  simp [primsOf, x25519_eq, okOr_toOption]

@[simp] theorem primsOf_pub (O : Orion) (kdf) (k : Bytes) : (primsOf O kdf).pub k = O.pub k := by
  simp [primsOf, x25519_derive_public_eq, okOr_toOption]

@[simp] theorem primsOf_hash (O : Orion) (kdf) (d : Bytes) : (primsOf O kdf).hash d = O.sha256 d := rfl

theorem diffie_hellman_eq (O : Orion) (k u : Bytes) : PrivateKey.diffie_hellman O k u = Rs.okOr (O.dh k u) := by
  simp [PrivateKey.diffie_hellman, PrivateKey.as_bytes, PublicKey.as_bytes, x25519_eq]

/-! ### the symmetric state -/

open Kestrel.Noise

/-- the translated `SymmetricState` that carries the model state `s` -/
def ofSym (s : Sym) : SymmetricState :=
  { cipher_state := { key := s.k, nonce := s.n }, chaining_key := s.ck, hash_output := s.h }

variable (O : Orion) (kdf : Bytes → Bytes → Bytes)

theorem new_eq (name : Bytes) : SymmetricState.new O name = ofSym (Sym.init (primsOf O kdf) name) := by
  unfold SymmetricState.new Sym.init ofSym
  by_cases h : name.length ≤ 32
  · have h' : ¬ 32 < name.length := by omega
    simp [-List.reduceReplicate, h, h', copyFromSlice_full, Nat.min_eq_left h, zeros]
  · have h' : 32 < name.length := by omega
    simp [h, h']

theorem mix_hash_ofSym (s : Sym) (d : Bytes) :
    SymmetricState.mix_hash O (ofSym s) d = ofSym (s.mixHash (primsOf O kdf) d) := by
  simp [SymmetricState.mix_hash, ofSym, Sym.mixHash]

theorem mix_key_ofSym (s : Sym) (d : Bytes) :
    SymmetricState.mix_key O (ofSym s) d = ofSym (s.mixKey (primsOf O kdf) d) := by
  simp [SymmetricState.mix_key, ofSym, Sym.mixKey, primsOf, PayloadKey.new, PayloadKey.as_bytes, CipherState.initialize_key]

theorem encrypt_and_hash_ofSym (s : Sym) (pt : Bytes) :
    SymmetricState.encrypt_and_hash O (ofSym s) pt =
      ((s.encryptAndHash (primsOf O kdf) pt).1, ofSym (s.encryptAndHash (primsOf O kdf) pt).2) := by
  simp [SymmetricState.encrypt_and_hash, CipherState.encrypt_with_ad, CipherState.set_nonce, SymmetricState.mix_hash, ofSym,
    Sym.encryptAndHash, Sym.mixHash, primsOf, PayloadKey.as_bytes, unwrap_eq_getD]

theorem decrypt_and_hash_ofSym (s : Sym) (ct : Bytes) :
    SymmetricState.decrypt_and_hash O (ofSym s) ct =
      match s.decryptAndHash (primsOf O kdf) ct with
      | none => (.error .decrypt, ofSym s)
      | some (pt, s') => (.ok pt, ofSym s') := by
  cases h : chapoly_decrypt_noise O (s.k.getD []) s.n s.h ct <;>
    simp [SymmetricState.decrypt_and_hash, CipherState.decrypt_with_ad, Sym.decryptAndHash, ofSym, primsOf, unwrap_eq_getD, h,
      Except.toOption, SymmetricState.mix_hash, Sym.mixHash]


theorem init_x_eq (ini : Bool) (pro s spk : Bytes) (e epk rs : Option Bytes) :
    HandshakeState.init_x O ini pro s spk e epk rs =
      { symmetric_state := ofSym (((Sym.init (primsOf O kdf) Noise.protocolName).mixHash (primsOf O kdf) pro).mixHash (primsOf O kdf)
          (if ini then rs.getD [] else spk)),
        s := some { private_key := s, public_key := spk },
        e := if e.isSome && epk.isSome then some { private_key := e.getD [], public_key := epk.getD [] } else none,
        rs := rs, re := none, initiator := ini, message_patterns := [[Token.E, Token.ES, Token.S, Token.SS]] } := by
  unfold HandshakeState.init_x
  cases ini <;> cases e <;> cases epk <;> simp [new_eq O kdf, mix_hash_ofSym O kdf, unwrap_eq_getD] <;> rfl


@[simp] theorem okOr_some (a : α) : Rs.okOr (some a) = .ok a := rfl
@[simp] theorem okOr_none : Rs.okOr (none : Option α) = .error () := rfl

theorem split_ofSym (s : Sym) : SymmetricState.split O (ofSym s) =
    ({ key := some ((primsOf O kdf).hkdf2 s.ck []).1, nonce := 0 }, { key := some ((primsOf O kdf).hkdf2 s.ck []).2, nonce := 0 }) := by
  simp [SymmetricState.split, ofSym, primsOf, PayloadKey.as_bytes, PayloadKey.new, CipherState.new, CipherState.initialize_key]

/-- what `write_message` returns, from the model's point of view -/
def wmView (r : Except Noise.Err NoiseHandshake × HandshakeState) : Except Noise.Err (Bytes × Bytes) :=
  r.1.map fun nh => (nh.message, nh.handshake_hash)

theorem write_message_eq (rand : Nat → Bytes) (pro s spk rs e epk payload : Bytes) :
    wmView (HandshakeState.write_message O rand
        (HandshakeState.init_x O true pro s spk (some e) (some epk) (some rs)) payload) =
      Noise.writeMessage (primsOf O kdf) pro s spk rs e epk payload := by
  rw [init_x_eq O kdf]
  unfold HandshakeState.write_message Noise.writeMessage Noise.initI wmView
  cases h1 : O.dh e rs with
  | none =>
    simp [Rs.forInStep_cons, PublicKey.as_bytes, mix_hash_ofSym O kdf, diffie_hellman_eq, h1, From_DhError_for_NoiseError, Except.map]
  | some d1 =>
    cases h2 : O.dh s rs with
    | none =>
      simp [Rs.forInStep_cons, PublicKey.as_bytes, mix_hash_ofSym O kdf, mix_key_ofSym O kdf, encrypt_and_hash_ofSym O kdf,
        diffie_hellman_eq, h1, h2, From_DhError_for_NoiseError, Except.map]
    | some d2 =>
      simp [Rs.forInStep_cons, PublicKey.as_bytes, mix_hash_ofSym O kdf, mix_key_ofSym O kdf, encrypt_and_hash_ofSym O kdf,
        split_ofSym O kdf, diffie_hellman_eq, h1, h2, Except.map, SymmetricState.get_handshake_hash]
      simp [ofSym]


/-- after `mix_key` the cipher state has a key (`has_key()` is `key.is_some()`; in the form `simp` brings it to) -/
theorem has_key_mixKey (s : Sym) (d : Bytes) :
    (ofSym (Sym.mixKey (primsOf O kdf) s d)).cipher_state.key.isSome = true := rfl

theorem try_from_mapError (b : Bytes) :
    Except.mapError (fun (_ : List UInt8) => Noise.Err.other) (PublicKey.try_from b) =
      if b.length = 32 then .ok b else .error .other := by
  unfold PublicKey.try_from
  by_cases h : b.length = 32 <;> simp [h, Except.mapError]

/-- what `read_message` returns, from the model's point of view: payload, the sender's static key as `get_pubkey` reports it
    afterwards (this is what `noise_decrypt` uses), handshake hash -/
def rmView (r : Except Noise.Err NoiseHandshake × HandshakeState) : Except Noise.Err (Bytes × Bytes × Bytes) :=
  match r with
  | (.ok nh, hs) => .ok (nh.message, (HandshakeState.get_pubkey hs).getD [], nh.handshake_hash)
  | (.error e, _) => .error e

theorem read_message_eq (pro r rpk msg : Bytes) :
    rmView (HandshakeState.read_message O (HandshakeState.init_x O false pro r rpk none none none) msg) =
      Noise.readMessage (primsOf O kdf) pro r rpk msg := by
  rw [init_x_eq O kdf]
  unfold HandshakeState.read_message Noise.readMessage Noise.initR
  by_cases h96 : msg.length < 96
  · simp [h96, rmView]
  by_cases h65 : 65535 < msg.length
  · simp [h96, h65, rmView]
  · skip
    have hmin : min 32 msg.length = 32 := by omega
    cases h1 : O.dh r (msg.take 32) with
    | none =>
      simp [h96, h65, Rs.forInStep_cons, DH_LEN, hmin, try_from_mapError, PublicKey.as_bytes, mix_hash_ofSym O kdf, diffie_hellman_eq, h1,
        From_DhError_for_NoiseError, rmView]
    | some d1 =>
      cases hd : Sym.decryptAndHash (primsOf O kdf) (Sym.mixKey (primsOf O kdf) (Sym.mixHash (primsOf O kdf) (Sym.mixHash (primsOf O kdf)
          (Sym.mixHash (primsOf O kdf) (Sym.init (primsOf O kdf) protocolName) pro) rpk) (msg.take 32)) d1) ((msg.drop 32).take 48) with
      | none =>
        simp [h96, h65, Rs.forInStep_cons, DH_LEN, hmin, try_from_mapError, PublicKey.as_bytes, mix_hash_ofSym O kdf, mix_key_ofSym O kdf,
          decrypt_and_hash_ofSym O kdf, has_key_mixKey O kdf, diffie_hellman_eq, h1, hd, rmView]
      | some p =>
        obtain ⟨rs, st⟩ := p
        by_cases hrs : rs.length = 32
        · cases h2 : O.dh r rs with
          | none =>
            simp [h96, h65, Rs.forInStep_cons, DH_LEN, hmin, try_from_mapError, PublicKey.as_bytes, mix_hash_ofSym O kdf, mix_key_ofSym O kdf,
              decrypt_and_hash_ofSym O kdf, has_key_mixKey O kdf, diffie_hellman_eq, h1, hd, hrs, h2, From_DhError_for_NoiseError, rmView]
          | some d2 =>
            cases hd2 : Sym.decryptAndHash (primsOf O kdf) (Sym.mixKey (primsOf O kdf) st d2) (msg.drop 80) with
            | none =>
              simp [h96, h65, Rs.forInStep_cons, DH_LEN, hmin, try_from_mapError, PublicKey.as_bytes, mix_hash_ofSym O kdf, mix_key_ofSym O kdf,
                decrypt_and_hash_ofSym O kdf, has_key_mixKey O kdf, diffie_hellman_eq, h1, hd, hrs, h2, hd2, rmView]
            | some q =>
              obtain ⟨pl, st2⟩ := q
              simp [h96, h65, Rs.forInStep_cons, DH_LEN, hmin, try_from_mapError, PublicKey.as_bytes, mix_hash_ofSym O kdf, mix_key_ofSym O kdf,
                decrypt_and_hash_ofSym O kdf, has_key_mixKey O kdf, diffie_hellman_eq, h1, hd, hrs, h2, hd2, rmView,
                split_ofSym O kdf, SymmetricState.get_handshake_hash, HandshakeState.get_pubkey]
              simp [ofSym]
        · simp [h96, h65, Rs.forInStep_cons, DH_LEN, hmin, try_from_mapError, PublicKey.as_bytes, mix_hash_ofSym O kdf, mix_key_ofSym O kdf,
            decrypt_and_hash_ofSym O kdf, has_key_mixKey O kdf, diffie_hellman_eq, h1, hd, hrs, rmView]

/-- an initiator's handshake state before `write_message` -/
def hsOf (sym : SymmetricState) (sp ep : Option KeyPair) (rs : Option Bytes) : HandshakeState :=
  { symmetric_state := sym, s := sp, e := ep, rs := rs, re := none, initiator := true,
    message_patterns := [[Token.E, Token.ES, Token.S, Token.SS]] }

theorem try_from_ok (b : Bytes) (h : b.length = 32) : PublicKey.try_from b = .ok b := by
  unfold PublicKey.try_from; simp [h]

theorem to_public_eq (hpub : ∀ k pk, O.pub k = some pk → pk.length = 32) (k : Bytes) :
    PrivateKey.to_public O k = Rs.okOr (O.pub k) := by
  cases h : O.pub k with
  | none => simp [PrivateKey.to_public, x25519_derive_public_eq, h]
  | some pk => simp [PrivateKey.to_public, x25519_derive_public_eq, h, try_from_ok pk (hpub k pk h)]

/-- `write_message` without an ephemeral pair generates one (`PrivateKey::generate`, `to_public`) and goes on as if it had been given -/
theorem write_message_fresh (hpub : ∀ k pk, O.pub k = some pk → pk.length = 32) (rand : Nat → Bytes)
    (sym : SymmetricState) (sp : Option KeyPair) (rs : Option Bytes) (payload : Bytes) :
    wmView (HandshakeState.write_message O rand (hsOf sym sp none rs) payload) =
      match O.pub (rand 32) with
      | none => .error .dh
      | some pk => wmView (HandshakeState.write_message O rand (hsOf sym sp (some { private_key := rand 32, public_key := pk }) rs) payload) := by
  unfold HandshakeState.write_message hsOf
  cases h : O.pub (rand 32) with
  | none => simp [Rs.forInStep_cons, PrivateKey.generate, to_public_eq O hpub, h, From_DhError_for_NoiseError, wmView, Except.map]
  | some pk => simp [Rs.forInStep_cons, PrivateKey.generate, to_public_eq O hpub, h]


theorem init_x_initiator (pro s spk : Bytes) (e epk : Option Bytes) (rs : Bytes) :
    HandshakeState.init_x O true pro s spk e epk (some rs) =
      hsOf (ofSym (Noise.initI (primsOf O kdf) pro rs)) (some { private_key := s, public_key := spk })
        (if e.isSome && epk.isSome then some { private_key := e.getD [], public_key := epk.getD [] } else none) (some rs) := by
  rw [init_x_eq O kdf]; rfl

theorem noise_encrypt_eq (hpub : ∀ k pk, O.pub k = some pk → pk.length = 32) (rand : Nat → Bytes)
    (s spk rs : Bytes) (e epk : Option Bytes) (pro pk : Bytes) :
    noise_encrypt O rand s spk rs e epk pro pk = RsIO.noiseEncrypt (primsOf O kdf) rand s spk rs e epk pro pk := by
  have main : noise_encrypt O rand s spk rs e epk pro pk =
      match wmView (HandshakeState.write_message O rand (HandshakeState.init_x O true pro s spk e epk (some rs)) pk) with
      | .error err => .error err
      | .ok (m, h) => .ok ⟨m, h⟩ := by
    rcases hX : HandshakeState.write_message O rand (HandshakeState.init_x O true pro s spk e epk (some rs)) pk with ⟨res, hs⟩
    cases res <;> simp [noise_encrypt, wmView, hX, Except.map]
  rw [main, init_x_initiator O kdf]
  unfold RsIO.noiseEncrypt
  have fresh := write_message_fresh O hpub rand (ofSym (Noise.initI (primsOf O kdf) pro rs))
    (some { private_key := s, public_key := spk }) (some rs) pk
  have given : ∀ e' epk' : Bytes, wmView (HandshakeState.write_message O rand (hsOf (ofSym (Noise.initI (primsOf O kdf) pro rs))
      (some { private_key := s, public_key := spk }) (some { private_key := e', public_key := epk' }) (some rs)) pk) =
      Noise.writeMessage (primsOf O kdf) pro s spk rs e' epk' pk := by
    intro e' epk'
    rw [← write_message_eq O kdf rand pro s spk rs e' epk' pk, init_x_initiator O kdf]; rfl
  cases e <;> cases epk <;> simp only [Option.isSome_none, Option.isSome_some, Bool.and_self, Bool.and_false, Bool.false_and,
    Bool.false_eq_true, if_false, if_true, Option.getD_some, fresh, given, primsOf_pub] <;>
    first
    | (cases O.pub (rand 32) <;> simp only [given] <;> rfl)
    | rfl


theorem noise_decrypt_eq (r rpk pro msg : Bytes) :
    noise_decrypt O r rpk pro msg = RsIO.noiseDecrypt (primsOf O kdf) r rpk pro msg := by
  unfold RsIO.noiseDecrypt
  rw [← read_message_eq O kdf pro r rpk msg]
  rcases hX : HandshakeState.read_message O (HandshakeState.init_x O false pro r rpk none none none) msg with ⟨res, hs⟩
  cases res with
  | error err => simp [noise_decrypt, rmView, hX]
  | ok nh =>
    by_cases h : nh.message.length = 32 <;> simp [noise_decrypt, rmView, hX, h, PayloadKey.new, unwrap_eq_getD]


/-! ### item 3: the counter-nonce AEAD and the two HKDFs -/

theorem chapoly_encrypt_ietf_eq (k nonce p ad : Bytes) : chapoly_encrypt_ietf O k nonce p ad = O.chSeal k nonce p ad := by
  simp [chapoly_encrypt_ietf, chapolySeal, TAG_SIZE]

theorem chapoly_encrypt_noise_eq (k : Bytes) (n : Nat) (ad p : Bytes) :
    chapoly_encrypt_noise O k n ad p = O.chSeal k (noiseNonce n) p ad := by
  simp [chapoly_encrypt_noise, chapoly_encrypt_ietf_eq, copyFromSlice_full, natLE_length] <;> rfl

theorem chapoly_decrypt_ietf_eq (k nonce c ad : Bytes) :
    chapoly_decrypt_ietf O k nonce c ad = if c.length < 16 then .error () else Rs.okOr (O.chOpen k nonce c ad) := by
  unfold chapoly_decrypt_ietf
  by_cases h : c.length < 16
  · simp [h, TAG_SIZE, Rs.checkedSub_of_lt h]
  · cases ho : O.chOpen k nonce c ad <;>
      simp [h, TAG_SIZE, chapolyOpen, ho, Except.mapError, Rs.checkedSub_of_le (Nat.le_of_not_lt h)]

theorem chapoly_decrypt_noise_eq (k : Bytes) (n : Nat) (ad c : Bytes) :
    chapoly_decrypt_noise O k n ad c = if c.length < 16 then .error () else Rs.okOr (O.chOpen k (noiseNonce n) c ad) := by
  simp [chapoly_decrypt_noise, chapoly_decrypt_ietf_eq, copyFromSlice_full, natLE_length] <;> rfl

theorem chapoly_noise_concrete_enc (k : Bytes) (n : Nat) (ad p : Bytes) :
    chapoly_encrypt_noise concreteOrion k n ad p = chapolyNoise.enc k n ad p := by
  rw [chapoly_encrypt_noise_eq]; rfl

theorem chapoly_noise_concrete_dec (k : Bytes) (n : Nat) (ad c : Bytes) :
    chapoly_decrypt_noise concreteOrion k n ad c = Rs.okOr (chapolyNoise.dec k n ad c) := by
  rw [chapoly_decrypt_noise_eq]
  by_cases h : c.length < 16
  · simp [h, chapolyNoise, aeadOpen_short _ _ _ _ h]
  · simp [h, chapolyNoise, concreteOrion]

theorem hkdf_noise_eq (hlen : ∀ k d, (O.hmac k d).length = 32) (ck ikm : Bytes) :
    hkdf_noise O ck ikm =
      (O.hmac (O.hmac ck ikm) [0x01], O.hmac (O.hmac ck ikm) (O.hmac (O.hmac ck ikm) [0x01] ++ [0x02])) := by
  simp [hkdf_noise, copyFromSlice_full, hlen, Rs.set]

theorem hkdf_noise_concrete (ck ikm : Bytes) : hkdf_noise concreteOrion ck ikm = hkdfNoise ck ikm := by
  rw [hkdf_noise_eq concreteOrion (fun k d => hmacSha256_length k d)]; rfl

theorem hkdf_sha256_eq (salt ikm info : Bytes) (len : Nat) : hkdf_sha256 O salt ikm info len = O.hkdf salt ikm info len := by
  simp [hkdf_sha256, hkdfDerive]

theorem hkdf_sha256_concrete (salt ikm info : Bytes) (len : Nat) :
    hkdf_sha256 concreteOrion salt ikm info len = Kestrel.hkdfSha256 salt ikm info len := by
  rw [hkdf_sha256_eq]; rfl

theorem Prims.ext' (P Q : Prims) (h1 : P.aead = Q.aead) (h2 : P.hash = Q.hash) (h3 : P.hkdf2 = Q.hkdf2)
    (h4 : P.hkdfFile = Q.hkdfFile) (h5 : P.dh = Q.dh) (h6 : P.pub = Q.pub) (h7 : P.kdf = Q.kdf) : P = Q := by
  cases P; cases Q; simp_all

theorem primsOf_concrete : primsOf concreteOrion concretePrims.kdf = concretePrims := by
  apply Prims.ext'
  · show ({ enc := chapoly_encrypt_noise concreteOrion,
            dec := fun k n ad c => (chapoly_decrypt_noise concreteOrion k n ad c).toOption } : Aead) = chapolyNoise
    simp only [Aead.mk.injEq, chapolyNoise]
    refine ⟨?_, ?_⟩
    · funext k n ad p; exact chapoly_noise_concrete_enc k n ad p
    · funext k n ad c; rw [chapoly_noise_concrete_dec, okOr_toOption]; rfl
  · rfl
  · show hkdf_noise concreteOrion = hkdfNoise
    funext ck ikm; exact hkdf_noise_concrete ck ikm
  · show (fun pk h => hkdf_sha256 concreteOrion [] pk h 32) = fun pk h => Kestrel.hkdfSha256 [] pk h 32
    funext pk h; exact hkdf_sha256_concrete [] pk h 32
  · funext k u; rw [primsOf_dh]; rfl
  · funext k; rw [primsOf_pub]; rfl
  · rfl


/-! ### the loop combinator: only the tokens in the list matter -/

theorem forInStep_congr {α σ τ : Type} (l : List α) (f g : α → σ → Rs.Step σ τ) (h : ∀ a ∈ l, ∀ s, f a s = g a s) (s : σ) :
    Rs.forInStep l f s = Rs.forInStep l g s := by
  induction l generalizing s with
  | nil => rfl
  | cons a as ih =>
    rw [Rs.forInStep_cons, Rs.forInStep_cons, h a (List.mem_cons_self ..) s]
    cases g a s with
    | cont s' => exact ih (fun b hb => h b (List.mem_cons_of_mem _ hb)) s'
    | exit t => rfl

/-- the one message pattern `init_x` installs -/
theorem init_x_patterns (ini : Bool) (pro s spk : Bytes) (e epk rs : Option Bytes) :
    (HandshakeState.init_x O ini pro s spk e epk rs).message_patterns = [[Token.E, Token.ES, Token.S, Token.SS]] := by
  rw [init_x_eq O (fun _ _ => [])]

theorem pubOf_length (k pk : Bytes) (h : X25519.pubOf k = some pk) : pk.length = 32 := by
  unfold X25519.pubOf X25519.x25519 at h
  simp only [] at h
  split at h
  · simp at h
  · simp only [Option.some.injEq] at h
    rw [← h]; simp [X25519.scalarMult, natLE_length]

end Kestrel.NoiseSrc
