/-
  The secret containers as TRANSLATED from the source (`KestrelModel/GeneratedContainers.lean`, tools/rs2lean_containers.py):
  lemmas about the zeroize glue (`KestrelModel/RsZeroize.lean`), and for each container

  * `containers_source_drop_wipes_<T>`   for EVERY value `v` of the generated structure: after the generated `drop`, every
                                         byte-carrying field holds zeros only (`allWiped`, generated from the field list) and has
                                         kept its size (`sameShape`, generated from the field list);
  * `containers_source_clone_<T>`        the clone (derived, or the translated hand-written one) equals the value (a deep copy),
                                         or there is no `Clone` at all;
  * `containers_source_clone_from_<T>`   `clone_from` (the default, or the translated hand-written one): the new value is the
                                         source; every block released on the way is zero and has the size of a block of the
                                         overwritten value;
  * `containers_source_volatile_<T>`     every wipe goes through the zeroize crate (no `fill(0)`): a syntactic fact, as data.

  The proofs name no field: a renamed field, reordered impls, another spelling of the same wipe leave them as they are.  A new
  byte-carrying field that `zeroize` does not cover makes `allWiped` stronger and the proof fail.

  Also here: the life-cycle machine of `KestrelModel/Lifecycle.lean` with the table look-ups replaced by two functions
  (`Lifecycle.stepWith`), used by KestrelProps/C20src.lean to run the machine on the generated `drop` / `cloneFrom`.
-/
import KestrelModel.GeneratedContainers
import KestrelModel.Lifecycle
namespace Kestrel
open ContainersSrc

/-! ### the zeroize glue -/
namespace RsZeroize

theorem wiped_zeros (n : Nat) : wiped (zeros n) := fun _ hx => (List.mem_replicate.mp hx).2

@[simp] theorem wiped_bytes (b : List UInt8) : wiped (bytes b) := wiped_zeros _

@[simp] theorem length_bytes (b : List UInt8) : (bytes b).length = b.length := List.length_replicate ..

@[simp] theorem sameLen_bytes (b : List UInt8) : sameLen b (bytes b) := (length_bytes b).symm

@[simp] theorem sameLen_refl (b : List UInt8) : sameLen b b := rfl

@[simp] theorem sameLenOpt_refl (o : Option (List UInt8)) : sameLenOpt o o := rfl

@[simp] theorem wipedOpt_none : wipedOpt none := fun _ h => nomatch h

@[simp] theorem wipedOpt_some (b : List UInt8) : wipedOpt (some b) ↔ wiped b :=
  ⟨fun h => h b rfl, fun h _ e => by cases e; exact h⟩

@[simp] theorem wipedOpt_opt_bytes (o : Option (List UInt8)) : wipedOpt (opt bytes o) := by
  cases o <;> simp [opt]

@[simp] theorem sameLenOpt_opt_bytes (o : Option (List UInt8)) : sameLenOpt o (opt bytes o) := by
  cases o <;> simp [opt, sameLenOpt]

@[simp] theorem sameLenOpt_some (a b : List UInt8) : sameLenOpt (some a) (some b) ↔ sameLen a b := by
  simp [sameLenOpt, sameLen]

@[simp] theorem opt_none {α : Type} (f : α → α) : opt f none = none := rfl

@[simp] theorem opt_some {α : Type} (f : α → α) (a : α) : opt f (some a) = some (f a) := rfl

theorem bytes_eq_zeros (b : List UInt8) : bytes b = zeros b.length := rfl

/-- a wiped block of known size is the block of zeros of that size -/
theorem eq_zeros_of_wiped {b : List UInt8} (h : wiped b) : b = zeros b.length :=
  List.eq_replicate_iff.mpr ⟨rfl, h⟩

/-- all blocks of a list of blocks are wiped -/
def allBlocksWiped (bs : List (List UInt8)) : Prop := ∀ r ∈ bs, wiped r

@[simp] theorem allBlocksWiped_nil : allBlocksWiped [] := fun _ h => nomatch h

@[simp] theorem allBlocksWiped_append (a b : List (List UInt8)) :
    allBlocksWiped (a ++ b) ↔ allBlocksWiped a ∧ allBlocksWiped b := by
  simp only [allBlocksWiped, List.mem_append]
  exact ⟨fun h => ⟨fun r hr => h r (Or.inl hr), fun r hr => h r (Or.inr hr)⟩, fun h r hr => hr.elim (h.1 r) (h.2 r)⟩

@[simp] theorem allBlocksWiped_blocks (b : List UInt8) : allBlocksWiped (blocks b) ↔ wiped b := by
  simp [allBlocksWiped, blocks]

@[simp] theorem allBlocksWiped_blocksOpt (o : Option (List UInt8)) : allBlocksWiped (blocksOpt o) ↔ wipedOpt o := by
  cases o <;> simp [allBlocksWiped, blocksOpt]

@[simp] theorem map_length_blocks (b : List UInt8) : (blocks b).map List.length = [b.length] := rfl

@[simp] theorem map_length_blocksOpt_opt_bytes (o : Option (List UInt8)) :
    (blocksOpt (opt bytes o)).map List.length = (blocksOpt o).map List.length := by
  cases o <;> simp [blocksOpt, opt]

@[simp] theorem map_length_blocksOpt_some_bytes (b : List UInt8) :
    (blocksOpt (some (bytes b))).map List.length = (blocksOpt (some b)).map List.length := by
  simp [blocksOpt]

/-- the partial wipe `b[lo..hi].zeroize()` leaves the bytes outside the range as they are (so it is NOT a wipe of the field) -/
example : bytesRange 0 2 [7, 8, 9] = [0, 0, 9] := by decide

end RsZeroize

/-! ### the containers

  One tactic for all of them: take the value apart, unfold the generated definitions, and let `simp` use the glue lemmas; an
  `if let Some(x) = ..` of the source is a `match` that is split. -/

open RsZeroize in
/-- closes goals about the generated `drop` / `zeroize` / `clone` / `cloneFrom` of a container, given its definitions -/
macro "containers_simp" "[" ds:Lean.Parser.Tactic.simpLemma,* "]" : tactic =>
  `(tactic| first
    | (simp [$ds,*]; done)
    | (simp [$ds,*]; split <;> simp_all [$ds,*]; done)
    | (repeat' (first | constructor | split) <;> simp_all [$ds,*]; done))

/-! #### PrivateKey -/

/-- **the wipe of `PrivateKey` is field-complete.** For every value of the generated structure, after the generated `drop` every
    byte-carrying field holds zeros only and has kept its size. -/
theorem containers_source_drop_wipes_PrivateKey (v : PrivateKey) :
    PrivateKey.allWiped (PrivateKey.drop v) ∧ PrivateKey.sameShape v (PrivateKey.drop v) := by
  cases v
  containers_simp [PrivateKey.allWiped, PrivateKey.sameShape, PrivateKey.drop, PrivateKey.zeroize]

/-- there is a `Clone` (derived, or written by hand and translated), and the clone is the value (every field a deep copy) -/
theorem containers_source_clone_PrivateKey (v : PrivateKey) :
    PrivateKey.hasClone = true ∧ PrivateKey.clone v = v := by
  cases v
  exact ⟨rfl, by containers_simp [PrivateKey.clone]⟩

/-- `clone_from` (the default `*self = source.clone()`, or the translated hand-written one): the new value is the source, and
    every block released on the way — for the default: the blocks of the overwritten value, after its `drop` — is zero and has
    the size of the block the overwritten value held -/
theorem containers_source_clone_from_PrivateKey (a b : PrivateKey) :
    (PrivateKey.cloneFrom a b).1 = b ∧
    RsZeroize.allBlocksWiped (PrivateKey.cloneFrom a b).2 ∧
    (PrivateKey.cloneFrom a b).2.map List.length = (PrivateKey.blocks a).map List.length := by
  cases a; cases b
  refine ⟨?_, ?_, ?_⟩ <;>
  containers_simp [PrivateKey.cloneFrom, PrivateKey.blocks, PrivateKey.drop, PrivateKey.zeroize, PrivateKey.clone]

/-- every wipe goes through the zeroize crate (volatile stores + fence); no `fill(0)` -/
theorem containers_source_volatile_PrivateKey : PrivateKey.nonVolatileWrites = [] := rfl

/-! #### PayloadKey -/

/-- **the wipe of `PayloadKey` is field-complete.** -/
theorem containers_source_drop_wipes_PayloadKey (v : PayloadKey) :
    PayloadKey.allWiped (PayloadKey.drop v) ∧ PayloadKey.sameShape v (PayloadKey.drop v) := by
  cases v
  containers_simp [PayloadKey.allWiped, PayloadKey.sameShape, PayloadKey.drop, PayloadKey.zeroize]

theorem containers_source_clone_PayloadKey (v : PayloadKey) :
    PayloadKey.hasClone = true ∧ PayloadKey.clone v = v := by
  cases v
  exact ⟨rfl, by containers_simp [PayloadKey.clone]⟩

theorem containers_source_clone_from_PayloadKey (a b : PayloadKey) :
    (PayloadKey.cloneFrom a b).1 = b ∧
    RsZeroize.allBlocksWiped (PayloadKey.cloneFrom a b).2 ∧
    (PayloadKey.cloneFrom a b).2.map List.length = (PayloadKey.blocks a).map List.length := by
  cases a; cases b
  refine ⟨?_, ?_, ?_⟩ <;>
  containers_simp [PayloadKey.cloneFrom, PayloadKey.blocks, PayloadKey.drop, PayloadKey.zeroize, PayloadKey.clone]

theorem containers_source_volatile_PayloadKey : PayloadKey.nonVolatileWrites = [] := rfl

/-! #### ZeroedString (the CLI's password holder) -/

/-- **the wipe of `ZeroedString` is field-complete.** -/
theorem containers_source_drop_wipes_ZeroedString (v : ZeroedString) :
    ZeroedString.allWiped (ZeroedString.drop v) ∧ ZeroedString.sameShape v (ZeroedString.drop v) := by
  cases v
  containers_simp [ZeroedString.allWiped, ZeroedString.sameShape, ZeroedString.drop, ZeroedString.zeroize]

/-- `ZeroedString` has no `Clone` at all (neither derived nor written): no copy of a password can be made through `Clone` -/
theorem containers_source_clone_ZeroedString :
    ZeroedString.hasClone = false ∧ ZeroedString.cloneDerived = false ∧ ZeroedString.cloneFromHandwritten = false :=
  ⟨rfl, rfl, rfl⟩

theorem containers_source_volatile_ZeroedString : ZeroedString.nonVolatileWrites = [] := rfl

/-! ### the life-cycle machine over two functions instead of the table -/
namespace Lifecycle

/-- `Lifecycle.step` with "what `drop` leaves in the buffer" and "what `clone_from` does" given as functions: `dropF b` is the
    content of the buffer when it is released; `cloneFromF bi bj` is the new secret of the overwritten container and the blocks
    released on the way (oldest first) -/
def stepWith (dropF : Bytes → Bytes) (cloneFromF : Bytes → Bytes → Bytes × List Bytes) (h : Heap) : Op → Heap
  | .generate s => { h with live := h.live ++ [some s] }
  | .fromBytes b => { h with live := h.live ++ [some b] }
  | .clone i =>
    match h.live[i]? with
    | some (some b) => { h with live := h.live ++ [some b] }
    | _ => h
  | .drop i =>
    match h.live[i]? with
    | some (some b) => { live := h.live.set i none, released := dropF b :: h.released }
    | _ => h
  | .cloneFrom i j =>
    match h.live[i]?, h.live[j]? with
    | some (some bi), some (some bj) =>
      { live := h.live.set i (some (cloneFromF bi bj).1), released := (cloneFromF bi bj).2.reverse ++ h.released }
    | _, _ => h

def runWith (dropF : Bytes → Bytes) (cloneFromF : Bytes → Bytes → Bytes × List Bytes) (ops : List Op) : Heap :=
  ops.foldl (stepWith dropF cloneFromF) {}

/-- if the two functions are what the table row says, the machine is `Lifecycle.step` -/
theorem step_eq_stepWith (c : Generated.Container) (dropF : Bytes → Bytes) (cloneFromF : Bytes → Bytes → Bytes × List Bytes)
    (hd : ∀ b, dropF b = dropContents c b)
    (hc : ∀ bi bj, cloneFromF bi bj = (bj, [if c.assignDropsOld then dropContents c bi else bi]))
    (h : Heap) (op : Op) : stepWith dropF cloneFromF h op = step c h op := by
  cases op with
  | generate s => rfl
  | fromBytes b => rfl
  | clone i => rfl
  | drop i =>
    simp only [stepWith, step]
    split <;> simp_all
  | cloneFrom i j =>
    simp only [stepWith, step]
    split <;> simp_all

theorem run_eq_runWith (c : Generated.Container) (dropF : Bytes → Bytes) (cloneFromF : Bytes → Bytes → Bytes × List Bytes)
    (hd : ∀ b, dropF b = dropContents c b)
    (hc : ∀ bi bj, cloneFromF bi bj = (bj, [if c.assignDropsOld then dropContents c bi else bi]))
    (ops : List Op) : runWith dropF cloneFromF ops = run c ops := by
  unfold runWith run
  have : stepWith dropF cloneFromF = step c := by
    funext h op; exact step_eq_stepWith c dropF cloneFromF hd hc h op
  rw [this]

end Lifecycle

end Kestrel
