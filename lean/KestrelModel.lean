-- This module serves as the root of the `KestrelModel` library.
-- Import modules here that should be built as part of the library.
import KestrelModel.Basic
